import Swat4.Base.Bytes
import Swat4.Model.Styles
import Swat4.Model.Slug
import Swat4.Gen.Facts
/-!
# Model of the REST address validation and status routing

Mirrors, function by function:

* Go's `net.IP` predicates on the 4-byte form (`net/ip.go`): `IsLoopback`, `IsPrivate`,
  `IsMulticast`, `IsLinkLocalUnicast`, `IsUnspecified`, `Equal(IPv4bcast)`, `IsGlobalUnicast`;
* `net.ParseIP` for dotted quads (`netip.parseIPv4Fields`, Go 1.23: decimal octets ≤ 255, no
  leading zeros, exactly four fields); a literal whose first of `. : %` is `:` goes to
  `netip.parseIPv6`, which is **not modelled** (`IPParse.v6`);
* `strconv.Atoi`; `addr.New`, `addr.NewFromDotted`, `addr.NewFromString`, `addr.NewPublicAddr`;
* the gin binding of `model.NewServer` (`required,ipv4` / `required,gte=1025,lte=65535`) over an
  already decoded JSON body (`Body`);
* `api.AddServer` ∘ `addserver.Execute` and `api.ViewServer` ∘ `getserver.Execute` as functions of
  the request and of the state of the addressed server;
* the stored record (`server.Server` with `details.Info`, `details.Player`, `details.Objective`, as far
  as the REST layer reads it) and the 200 bodies made from it: `model.Server`, `model.ServerPlayer`,
  `model.ServerObjective`, `model.ServerDetail` member by member (`internal/rest/model/server.go`),
  `NewServerFromDomain`, `NewServerPlayerFromDomain`, `NewServerObjectiveFromDomain`,
  `NewServerDetailFromDomain`, the `String()` methods of `PlayerTeam`, `PlayerCoopStatus`,
  `ObjectiveStatus`, and what `encoding/json` writes for each struct (member names in field order);
* `api.ListServers` ∘ `listservers.Execute` over the records the registry holds.
-/
namespace Swat4.Rest
open Swat4

/-! ## IPv4 class predicates as Go computes them -/

structure IP4 where
  a : UInt8
  b : UInt8
  c : UInt8
  d : UInt8
  deriving DecidableEq, Repr

/-- `ip4[0] == 127` -/
def isLoopback (ip : IP4) : Bool := ip.a == 127
/-- `ip4[0] == 10 || (ip4[0] == 172 && ip4[1]&0xf0 == 16) || (ip4[0] == 192 && ip4[1] == 168)` -/
def isPrivate (ip : IP4) : Bool :=
  ip.a == 10 || (ip.a == 172 && ip.b &&& 0xf0 == 16) || (ip.a == 192 && ip.b == 168)
/-- `ip4[0]&0xf0 == 0xe0` -/
def isMulticast (ip : IP4) : Bool := ip.a &&& 0xf0 == 0xe0
/-- `ip4[0] == 169 && ip4[1] == 254` -/
def isLinkLocalUnicast (ip : IP4) : Bool := ip.a == 169 && ip.b == 254
/-- `ip.Equal(IPv4zero)` -/
def isUnspecified (ip : IP4) : Bool := ip.a == 0 && ip.b == 0 && ip.c == 0 && ip.d == 0
/-- `ip.Equal(IPv4bcast)` -/
def isBroadcast (ip : IP4) : Bool := ip.a == 255 && ip.b == 255 && ip.c == 255 && ip.d == 255
/-- `IsGlobalUnicast` (true for RFC 1918 space, as the Go documentation says) -/
def isGlobalUnicast (ip : IP4) : Bool :=
  !isBroadcast ip && !isUnspecified ip && !isLoopback ip && !isMulticast ip && !isLinkLocalUnicast ip

/-! ## `net.ParseIP`, `strconv.Atoi` -/

inductive IPParse where
  | ok (ip : IP4)
  | bad
  | v6   -- first of `.`, `:`, `%` is `:` — handled by `netip.parseIPv6`, not modelled
  deriving DecidableEq, Repr

def isDigit (b : UInt8) : Bool := 48 ≤ b.toNat && b.toNat ≤ 57

/-- `netip.parseIPv4Fields`: `val`, `digLen` as in the Go loop, `acc` = the fields stored so far
(`pos = acc.length`) -/
def v4Fields : Bytes → (val digLen : Nat) → (acc : List UInt8) → Option (List UInt8)
  | [], val, _, acc => if acc.length < 3 then none else some (acc ++ [UInt8.ofNat val])
  | ch :: rest, val, digLen, acc =>
    if isDigit ch then
      if digLen = 1 ∧ val = 0 then none
      else if val * 10 + (ch.toNat - 48) > 255 then none
      else v4Fields rest (val * 10 + (ch.toNat - 48)) (digLen + 1) acc
    else if ch = 46 then
      -- `i == 0 || s[i-1] == '.'` ⇔ no digit in the current octet; `i == len(s)-1` ⇔ nothing follows
      if digLen = 0 ∨ rest = [] then none
      else if acc.length = 3 then none
      else v4Fields rest 0 0 (acc ++ [UInt8.ofNat val])
    else none

/-- which parser `netip.ParseAddr` selects: the first of `.` `:` `%` in the string -/
def firstSep : Bytes → Option UInt8
  | [] => none
  | ch :: rest => if ch = 46 ∨ ch = 58 ∨ ch = 37 then some ch else firstSep rest

/-- `net.ParseIP(s)` followed by `.To4()` -/
def parseIP (s : Bytes) : IPParse :=
  match firstSep s with
  | some 46 =>
    match v4Fields s 0 0 [] with
    | some [a, b, c, d] => .ok ⟨a, b, c, d⟩
    | _ => .bad
  | some 58 => .v6
  | _ => .bad

/-- `strconv.Atoi` (64-bit `int`): optional sign, at least one ASCII digit, value within int64 -/
def atoi (s : Bytes) : Option Int :=
  let neg := s.head? = some 45
  let ds := if s.head? = some 45 ∨ s.head? = some 43 then s.drop 1 else s
  if ds.isEmpty || !ds.all isDigit then none
  else
    let n : Nat := ds.foldl (fun acc d => acc * 10 + (d.toNat - 48)) 0
    let v : Int := if neg then -(n : Int) else (n : Int)
    if v < -9223372036854775808 ∨ v > 9223372036854775807 then none else some v

/-! ## `addr` -/

inductive AddrErr where
  | invalidIP | invalidPort | invalidPublicIP
  deriving DecidableEq, Repr

structure Addr where
  ip : IP4
  port : Int
  deriving DecidableEq, Repr

/-- outcome of an address constructor; `unmodelled` = the input reached `parseIPv6` -/
inductive AddrRes where
  | ok (a : Addr)
  | err (e : AddrErr)
  | unmodelled
  deriving DecidableEq, Repr

/-- `addr.New(ip, port)` for an already parsed `ip` (`none` = `nil`/non-IPv4) -/
def addrNew (ip : Option IP4) (port : Int) : Except AddrErr Addr :=
  if port < 1 ∨ port > 65535 then .error .invalidPort
  else match ip with
    | none => .error .invalidIP
    | some ip =>
      if !isGlobalUnicast ip && !isPrivate ip && !isLoopback ip then .error .invalidIP
      else .ok ⟨ip, port⟩

/-- `addr.NewPublicAddr` -/
def newPublicAddr (a : Addr) : Except AddrErr Addr :=
  if isPrivate a.ip || isLoopback a.ip then .error .invalidPublicIP else .ok a

/-- `addr.New` then `addr.NewPublicAddr` on four bytes and a port: what both REST handlers run
after parsing -/
def publicAddr (ip : IP4) (port : Int) : Except AddrErr Addr :=
  match addrNew (some ip) port with
  | .ok a => newPublicAddr a
  | .error e => .error e

def ofExcept : Except AddrErr Addr → AddrRes
  | .ok a => .ok a
  | .error e => .err e

/-- `addr.NewFromDotted` -/
def addrFromDotted (ip : Bytes) (port : Int) : AddrRes :=
  match parseIP ip with
  | .ok ip4 => ofExcept (addrNew (some ip4) port)
  | .bad => ofExcept (addrNew none port)
  | .v6 => if port < 1 ∨ port > 65535 then .err .invalidPort else .unmodelled

/-- `addr.NewFromString`: cut at the first `:`; the IP part therefore never contains `:` -/
def addrFromString (s : Bytes) : AddrRes :=
  let ip := s.takeWhile (· ≠ 58)
  let rest := s.dropWhile (· ≠ 58)
  if rest.isEmpty || ip.isEmpty || (rest.drop 1).isEmpty then .err .invalidIP
  else match atoi (rest.drop 1) with
    | none => .err .invalidPort
    | some p => addrFromDotted ip p

def andThenPublic : AddrRes → AddrRes
  | .ok a => ofExcept (newPublicAddr a)
  | r => r

/-! ## the stored record (`internal/core/entities/{server,details}`)

Strings are sequences of Unicode scalar values (`List Char`): every stored string went through
`json.Marshal` in the repository, which writes valid UTF-8.  Go's `int` is 64 bit; the model's
`Int` is unbounded and the stored values are whatever the record holds. -/

/-- `details.Info` (`info.go:9-34`), field by field in declaration order -/
structure Info where
  hostname : List Char := []
  hostPort : Int := 0
  gameVariant : List Char := []
  gameVersion : List Char := []
  gameType : List Char := []
  numPlayers : Int := 0
  maxPlayers : Int := 0
  mapName : List Char := []
  password : Bool := false
  statsEnabled : Bool := false
  round : Int := 0
  numRounds : Int := 0
  timeLeft : Int := 0
  timeSpecial : Int := 0
  swatScore : Int := 0
  suspectsScore : Int := 0
  swatWon : Int := 0
  suspectsWon : Int := 0
  bombsDefused : Int := 0
  bombsTotal : Int := 0
  tocReports : List Char := []
  weaponsSecured : List Char := []
  version : List Char := []
  deriving DecidableEq, Repr

/-- `details.Player` (`player.go:52-75`); `team` / `coopStatus` are the `int` values of
`PlayerTeam` / `PlayerCoopStatus`, whatever the record holds -/
structure Player where
  name : List Char := []
  score : Int := 0
  ping : Int := 0
  team : Int := 0
  vip : Bool := false
  coopStatus : Int := 0
  kills : Int := 0
  teamKills : Int := 0
  deaths : Int := 0
  arrests : Int := 0
  arrested : Int := 0
  vipEscapes : Int := 0
  vipEscapes2 : Int := 0
  vipArrests : Int := 0
  vipRescues : Int := 0
  vipKillsValid : Int := 0
  vipKillsInvalid : Int := 0
  bombsDefused : Int := 0
  bombsDetonated : Bool := false
  caseEscapes : Int := 0
  caseKills : Int := 0
  caseSecured : Bool := false
  deriving DecidableEq, Repr

/-- `details.Objective` (`objective.go:27-30`) -/
structure Objective where
  name : List Char := []
  status : Int := 0
  deriving DecidableEq, Repr

/-- `server.Server` as far as the REST layer reads it: `Addr`, `Info`, `Details.Players`,
`Details.Objectives`.  `Details.Info` is stored too (`detailsInfo`) but no function of
`internal/rest/model` reads it — the bodies are made from `Info` (`server.go:47`) -/
structure Stored where
  addr : Addr
  info : Info := {}
  detailsInfo : Info := {}
  players : List Player := []
  objectives : List Objective := []
  deriving DecidableEq, Repr

/-! ## `fmt` and `String()` renderings -/

/-- `%d` of a Go `int` -/
def decimal (n : Int) : List Char :=
  if n < 0 then '-' :: Nat.toDigits 10 n.natAbs else Nat.toDigits 10 n.toNat

/-- `Addr.GetDottedIP()`: `fmt.Sprintf("%d.%d.%d.%d", …)` -/
def dottedIP (ip : IP4) : List Char :=
  Nat.toDigits 10 ip.a.toNat ++ '.' :: Nat.toDigits 10 ip.b.toNat ++ '.' :: Nat.toDigits 10 ip.c.toNat ++
    '.' :: Nat.toDigits 10 ip.d.toNat

/-- `Addr.String()`: `fmt.Sprintf("%s:%d", a.GetDottedIP(), a.Port)` -/
def addrString (a : Addr) : List Char := dottedIP a.ip ++ ':' :: decimal a.port

/-- `PlayerTeam.String()` (`player.go:39-47`): `TeamSwat` 0 and `TeamSwatRed` 2 are `swat`,
`TeamSuspects` 1 is `suspects`, anything else `fmt.Sprintf("%d", pt)` -/
def teamString (t : Int) : List Char :=
  if t = 0 ∨ t = 2 then "swat".toList
  else if t = 1 then "suspects".toList
  else decimal t

/-- `PlayerCoopStatus.String()` (`player.go:17-31`) -/
def coopStatusString (c : Int) : List Char :=
  if c = 0 then "unknown".toList
  else if c = 1 then "Ready".toList
  else if c = 2 then "Healthy".toList
  else if c = 3 then "Injured".toList
  else if c = 4 then "Incapacitated".toList
  else decimal c

/-- `ObjectiveStatus.String()` (`objective.go:15-25`) -/
def objectiveStatusString (s : Int) : List Char :=
  if s = 0 then "In Progress".toList
  else if s = 1 then "Completed".toList
  else if s = 2 then "Failed".toList
  else decimal s

/-- `boolToInt` (`server.go:176-183`) -/
def boolToInt (v : Bool) : Nat := if v then 1 else 0

/-! ## the response structs (`internal/rest/model/server.go`) -/

/-- `model.Server` (`server.go:16-44`), member by member.  The two `slug.Make` members are `none`
when the source string is outside the modelled subset of `slug.Make` (`Slug.make`) -/
structure ServerJson where
  address : List Char
  ip : List Char
  port : Int
  hostname : List Char
  hostnamePlain : List Char
  hostnameHTML : List Char
  passworded : Bool
  gameName : List Char
  gameVer : List Char
  gameType : List Char
  gameTypeSlug : Option (List Char)
  mapName : List Char
  mapNameSlug : Option (List Char)
  playerNum : Int
  playerMax : Int
  roundNum : Int
  roundMax : Int
  timeLeft : Int
  timeSpecial : Int
  swatScore : Int
  suspectsScore : Int
  swatWon : Int
  suspectsWon : Int
  bombsDefused : Int
  bombsTotal : Int
  tocReports : List Char
  weaponsSecured : List Char
  deriving DecidableEq, Repr

/-- `model.ServerPlayer` (`server.go:81-104`) -/
structure PlayerJson where
  name : List Char
  ping : Int
  score : Int
  team : List Char
  vip : Bool
  coopStatus : List Char
  coopStatusSlug : Option (List Char)
  kills : Int
  teamKills : Int
  deaths : Int
  arrests : Int
  arrested : Int
  vipEscapes : Int
  vipArrests : Int
  vipRescues : Int
  vipKillsValid : Int
  vipKillsInvalid : Int
  bombsDefused : Int
  bombsDetonated : Nat   -- uint8
  caseEscapes : Int
  caseKills : Int
  caseSecured : Nat      -- uint8
  deriving DecidableEq, Repr

/-- `model.ServerObjective` (`server.go:134-138`) -/
structure ObjectiveJson where
  name : List Char
  status : List Char
  statusSlug : Option (List Char)
  deriving DecidableEq, Repr

/-- `model.ServerDetail` (`server.go:149-153`); an empty list stands for Go's `nil` slice (the
constructor below never makes an empty non-nil one), which `encoding/json` writes as `null` -/
structure ServerDetailJson where
  info : ServerJson
  players : List PlayerJson
  objectives : List ObjectiveJson
  deriving DecidableEq, Repr

/-- `NewServerFromDomain` (`server.go:46-79`), line by line -/
def serverJsonOf (s : Stored) : ServerJson :=
  let hostname := s.info.hostname
  { address := addrString s.addr
    ip := dottedIP s.addr.ip
    port := s.addr.port
    hostname := hostname
    hostnamePlain := Styles.clean hostname
    hostnameHTML := Styles.toHTML hostname
    passworded := s.info.password
    gameName := s.info.gameVariant
    gameVer := s.info.gameVersion
    gameType := s.info.gameType
    gameTypeSlug := Slug.make s.info.gameType
    mapName := s.info.mapName
    mapNameSlug := Slug.make s.info.mapName
    playerNum := s.info.numPlayers
    playerMax := s.info.maxPlayers
    roundNum := s.info.round
    roundMax := s.info.numRounds
    timeLeft := s.info.timeLeft
    timeSpecial := s.info.timeSpecial
    swatScore := s.info.swatScore
    suspectsScore := s.info.suspectsScore
    swatWon := s.info.swatWon
    suspectsWon := s.info.suspectsWon
    bombsDefused := s.info.bombsDefused
    bombsTotal := s.info.bombsTotal
    tocReports := s.info.tocReports
    weaponsSecured := s.info.weaponsSecured }

/-- `NewServerPlayerFromDomain` (`server.go:106-132`) -/
def playerJsonOf (p : Player) : PlayerJson :=
  let coopStatus := coopStatusString p.coopStatus
  { name := p.name
    ping := p.ping
    team := teamString p.team
    score := p.score
    vip := p.vip
    coopStatus := coopStatus
    coopStatusSlug := Slug.make coopStatus
    kills := p.kills
    teamKills := p.teamKills
    deaths := p.deaths
    arrests := p.arrests
    arrested := p.arrested
    vipEscapes := p.vipEscapes
    vipArrests := p.vipArrests
    vipRescues := p.vipRescues
    vipKillsValid := p.vipKillsValid
    vipKillsInvalid := p.vipKillsInvalid
    bombsDefused := p.bombsDefused
    bombsDetonated := boolToInt p.bombsDetonated
    caseEscapes := p.caseEscapes
    caseKills := p.caseKills
    caseSecured := boolToInt p.caseSecured }

/-- `NewServerObjectiveFromDomain` (`server.go:140-147`) -/
def objectiveJsonOf (o : Objective) : ObjectiveJson :=
  let status := objectiveStatusString o.status
  { name := o.name, status := status, statusSlug := Slug.make status }

/-- `NewServerDetailFromDomain` (`server.go:155-174`): the two loops append in stored order (`nil`
stays `nil` when there is nothing to append), `Info` is `NewServerFromDomain(svr)` -/
def serverDetailJsonOf (s : Stored) : ServerDetailJson :=
  { info := serverJsonOf s
    players := s.players.map playerJsonOf
    objectives := s.objectives.map objectiveJsonOf }

/-! ## what `encoding/json` writes: member names in field order -/

/-- one scalar JSON value; `unmodelled` = a `slug.Make` result outside the modelled subset -/
inductive JAtom where
  | str (s : List Char)
  | int (n : Int)
  | bool (b : Bool)
  | unmodelled
  deriving DecidableEq, Repr

def slugAtom : Option (List Char) → JAtom
  | some s => .str s
  | none => .unmodelled

/-- `json.Marshal(model.Server)`: the `json` tags of `server.go:17-43` in field order -/
def ServerJson.members (s : ServerJson) : List (String × JAtom) :=
  [("address", .str s.address), ("ip", .str s.ip), ("port", .int s.port), ("hostname", .str s.hostname),
   ("hostname_plain", .str s.hostnamePlain), ("hostname_html", .str s.hostnameHTML),
   ("passworded", .bool s.passworded), ("gamename", .str s.gameName), ("gamever", .str s.gameVer),
   ("gametype", .str s.gameType), ("gametype_slug", slugAtom s.gameTypeSlug), ("mapname", .str s.mapName),
   ("mapname_slug", slugAtom s.mapNameSlug), ("player_num", .int s.playerNum), ("player_max", .int s.playerMax),
   ("round_num", .int s.roundNum), ("round_max", .int s.roundMax), ("time_round", .int s.timeLeft),
   ("time_special", .int s.timeSpecial), ("score_swat", .int s.swatScore), ("score_sus", .int s.suspectsScore),
   ("vict_swat", .int s.swatWon), ("vict_sus", .int s.suspectsWon), ("bombs_defused", .int s.bombsDefused),
   ("bombs_total", .int s.bombsTotal), ("coop_reports", .str s.tocReports), ("coop_weapons", .str s.weaponsSecured)]

/-- `json.Marshal(model.ServerPlayer)`: the tags of `server.go:82-103` -/
def PlayerJson.members (p : PlayerJson) : List (String × JAtom) :=
  [("name", .str p.name), ("ping", .int p.ping), ("score", .int p.score), ("team", .str p.team), ("vip", .bool p.vip),
   ("coop_status", .str p.coopStatus), ("coop_status_slug", slugAtom p.coopStatusSlug), ("kills", .int p.kills),
   ("teamkills", .int p.teamKills), ("deaths", .int p.deaths), ("arrests", .int p.arrests), ("arrested", .int p.arrested),
   ("vip_escapes", .int p.vipEscapes), ("vip_captures", .int p.vipArrests), ("vip_rescues", .int p.vipRescues),
   ("vip_kills_valid", .int p.vipKillsValid), ("vip_kills_invalid", .int p.vipKillsInvalid),
   ("rd_bombs_defused", .int p.bombsDefused), ("rd_crybaby", .int p.bombsDetonated), ("sg_escapes", .int p.caseEscapes),
   ("sg_kills", .int p.caseKills), ("sg_crybaby", .int p.caseSecured)]

/-- `json.Marshal(model.ServerObjective)`: the tags of `server.go:135-137` -/
def ObjectiveJson.members (o : ObjectiveJson) : List (String × JAtom) :=
  [("name", .str o.name), ("status", .str o.status), ("status_slug", slugAtom o.statusSlug)]

/-- the tags of `model.ServerDetail` (`server.go:150-152`) -/
def detailMemberNames : List String := ["info", "players", "objectives"]

/-! ## the addressed server, responses, store effects -/

/-- discovery status bits (`status.go`; checked against the generated facts in `Properties/C17`) -/
def dsNew : Nat := 1
def dsInfo : Nat := 4
def dsDetails : Nat := 8
def dsDetailsRetry : Nat := 16
def dsPortRetry : Nat := 128
def dsNoPort : Nat := 256

/-- `HasDiscoveryStatus(bit)` for a single bit = `HasAnyDiscoveryStatus(bit)` -/
def hasBit (w bit : Nat) : Bool := w &&& bit != 0

/-- state of the record stored under the addressed server's key -/
inductive SrvState where
  | absent
  | present (status : Nat) (queryPort : Int) (rec : Stored)
  deriving Repr

/-- what a request did to registry and probe queue -/
inductive Effect where
  | none
  /-- a port probe `(addr, port = game port, goal = port, retries 0, max = configured)` was queued and
  the record written with this query port and status word; `created` = the record is new -/
  | discover (created : Bool) (a : Addr) (queryPort : Int) (status : Nat)
  deriving DecidableEq, Repr

/-- the server data of a response body (`c.JSON(http.StatusOK, …)`) -/
inductive RespBody where
  /-- `model.Server`: `POST /api/servers` (`servers_add.go:48`) -/
  | server (s : ServerJson)
  /-- `model.ServerDetail`: `GET /api/servers/:address` (`servers_view.go:50`) -/
  | detail (d : ServerDetailJson)
  /-- `[]model.Server`: `GET /api/servers` (`servers_list.go:58-62`; never `nil`: `make(…, 0, n)`) -/
  | list (l : List ServerJson)
  deriving DecidableEq, Repr

structure Resp where
  status : Nat
  /-- the server data of the body; `none`: the body carries no server data (it is empty, or the
  `{"error": …}` object of a 400) -/
  body : Option RespBody
  effect : Effect
  deriving Repr

/-- `hostname_html`, `hostname_plain` of a body with one server (top level for `model.Server`, under
`info` for `model.ServerDetail`) -/
def RespBody.hostnames : RespBody → Option (List Char × List Char)
  | .server s => some (s.hostnameHTML, s.hostnamePlain)
  | .detail d => some (d.info.hostnameHTML, d.info.hostnamePlain)
  | .list _ => none

def Resp.hostnames (r : Resp) : Option (List Char × List Char) := r.body.bind RespBody.hostnames

/-- `UpdateDiscoveryStatus(s)`: clears `new`, sets `s` -/
def updateStatus (w s : Nat) : Nat := (w &&& (511 - dsNew)) ||| s

/-- `c.JSON(http.StatusOK, model.NewServerFromDomain(svr))` -/
def serverBody (rec : Stored) : Option RespBody := some (.server (serverJsonOf rec))

/-- `c.JSON(http.StatusOK, model.NewServerDetailFromDomain(svr))` -/
def detailBody (rec : Stored) : Option RespBody := some (.detail (serverDetailJsonOf rec))

def badRequest : Resp := ⟨400, none, .none⟩

/-- `addserver.Execute` + the error mapping of `api.AddServer`, for a validated public address -/
def addExecute (a : Addr) : SrvState → Resp
  | .absent =>
    -- createServerFromAddress: query port min(port+1, 65535), status `new`; then the default branch
    -- of maybeDiscoverServer: enqueue, mark port_retry
    ⟨202, none, .discover true a (if a.port + 1 ≤ 65535 then a.port + 1 else 65535) (updateStatus dsNew dsPortRetry)⟩
  | .present w qp rec =>
    if hasBit w dsDetails then ⟨200, serverBody rec, .none⟩
    else if hasBit w dsPortRetry || hasBit w dsDetailsRetry then ⟨202, none, .none⟩
    else if hasBit w dsNoPort then ⟨410, none, .none⟩
    else ⟨202, none, .discover false a qp (updateStatus w dsPortRetry)⟩

/-- `getserver.Execute` + the error mapping of `api.ViewServer` -/
def viewExecute : SrvState → Resp
  | .absent => ⟨404, none, .none⟩
  | .present w _ rec => if hasBit w dsDetails then ⟨200, detailBody rec, .none⟩ else ⟨204, none, .none⟩

/-! ## request binding -/

/-- one member of the decoded JSON object, as `encoding/json` sees it for a `string`/`int` field -/
inductive JField where
  | absent            -- no such key, or `null`
  | str (s : Bytes)
  | int (n : Int)     -- an integer literal
  | other             -- bool, non-integer number, array, object
  deriving DecidableEq, Repr

/-- a decoded request body: `bad` = not a JSON object / syntax error (`ShouldBindJSON` fails) -/
inductive Body where
  | bad
  | obj (ip port : JField)
  deriving DecidableEq, Repr

/-- the binding limits of `model.NewServer.Port` (`gte=1025,lte=65535`) -/
def portMin : Int := 1025
def portMax : Int := 65535

/-- `ShouldBindJSON(&req)` then `addr.NewFromDotted(req.IP, req.Port)` then `NewPublicAddr` -/
def parseAddRequest : Body → AddrRes
  | .bad => .err .invalidIP
  | .obj (.str ip) (.int port) =>
    -- `required`: non-empty / non-zero; `ipv4`: ParseIP(s).To4() != nil; gte/lte
    if ip.isEmpty || port == 0 || port < portMin || port > portMax then .err .invalidIP
    else match parseIP ip with
      | .bad => .err .invalidIP
      | .v6 => .unmodelled
      | .ok ip4 => andThenPublic (ofExcept (addrNew (some ip4) port))
  | .obj _ _ => .err .invalidIP

/-- `api.AddServer`; `none` = input not modelled -/
def addServer (body : Body) (st : SrvState) : Option Resp :=
  match parseAddRequest body with
  | .ok a => some (addExecute a st)
  | .err _ => some badRequest
  | .unmodelled => none

/-- `api.AddServer` for a request given as four bytes and a port (the body
`{"ip":"a.b.c.d","port":p}`) -/
def addServerIP (ip : IP4) (port : Int) (st : SrvState) : Resp :=
  if port == 0 || port < portMin || port > portMax then badRequest
  else match publicAddr ip port with
    | .ok a => addExecute a st
    | .error _ => badRequest

/-- `api.ViewServer` -/
def viewServer (address : Bytes) (st : SrvState) : Option Resp :=
  match andThenPublic (addrFromString address) with
  | .ok _ => some (viewExecute st)
  | .err _ => some badRequest
  | .unmodelled => none

/-- `api.ViewServer` for an address that parsed to four bytes and a port -/
def viewServerIP (ip : IP4) (port : Int) (st : SrvState) : Resp :=
  match publicAddr ip port with
  | .ok _ => viewExecute st
  | .error _ => badRequest

/-! ## `GET /api/servers` (`servers_list.go`, `listservers.go`)

The query string is taken as already split by `url.ParseQuery`: per parameter, absent or its first
value (`gin`'s `setByForm` uses `vs[0]`).  String parameters are code points (the filters compare
them with stored strings, which are valid UTF-8); the three flags are the raw bytes `strconv.ParseBool`
sees. -/

/-- `strconv.ParseBool` -/
def parseBool (s : Bytes) : Option Bool :=
  if s = [49] ∨ s = [116] ∨ s = [84] ∨ s = [84, 82, 85, 69] ∨ s = [116, 114, 117, 101] ∨ s = [84, 114, 117, 101] then some true
  else if s = [48] ∨ s = [102] ∨ s = [70] ∨ s = [70, 65, 76, 83, 69] ∨ s = [102, 97, 108, 115, 101] ∨ s = [70, 97, 108, 115, 101] then some false
  else none

/-- the query parameters of `ServerFilterForm` (`form:"gamevariant"` … `form:"noempty"`) -/
structure ListQuery where
  gameVariant : Option (List Char) := none
  gameVer : Option (List Char) := none
  gameType : Option (List Char) := none
  hidePassworded : Option Bytes := none
  hideFull : Option Bytes := none
  hideEmpty : Option Bytes := none
  deriving DecidableEq, Repr

/-- `ServerFilterForm` after `ShouldBindQuery` -/
structure ListForm where
  gameVariant : List Char := []
  gameVer : List Char := []
  gameType : List Char := []
  hidePassworded : Bool := false
  hideFull : Bool := false
  hideEmpty : Bool := false
  deriving DecidableEq, Repr

/-- `setBoolField`: an absent parameter leaves the field `false`, an empty value is `"false"`, any
other goes through `strconv.ParseBool`; `none` = binding error -/
def bindBool : Option Bytes → Option Bool
  | none => some false
  | some v => if v.isEmpty then some false else parseBool v

/-- `c.ShouldBindQuery(&form)`; `none` = error (⇒ 400) -/
def bindListQuery (q : ListQuery) : Option ListForm :=
  match bindBool q.hidePassworded, bindBool q.hideFull, bindBool q.hideEmpty with
  | some p, some f, some e =>
    some ⟨q.gameVariant.getD [], q.gameVer.getD [], q.gameType.getD [], p, f, e⟩
  | _, _, _ => none

/-- the filters `prepareQuery` can build (`servers_list.go:73-106`) -/
inductive RFilter where
  | gameVariantEq (v : List Char)   -- filter.New("gamevariant", "=", form.GameVariant)
  | gameVerEq (v : List Char)       -- filter.New("gamever", "=", form.GameVer)
  | gameTypeEq (v : List Char)      -- filter.New("gametype", "=", form.GameType)
  | notPassworded                   -- filter.New("password", "!=", 1)
  | notFull                         -- filter.New("numplayers", "!=", filter.NewFieldValue("maxplayers"))
  | notEmpty                        -- filter.New("numplayers", ">", 0)
  deriving DecidableEq, Repr

/-- `prepareQuery`: the filters in the order they are appended (all field names are query fields and
all operators known, so `filter.New` never fails) -/
def prepareQuery (f : ListForm) : List RFilter :=
  (if f.gameVariant ≠ [] then [.gameVariantEq f.gameVariant] else []) ++
  (if f.gameVer ≠ [] then [.gameVerEq f.gameVer] else []) ++
  (if f.gameType ≠ [] then [.gameTypeEq f.gameType] else []) ++
  (if f.hidePassworded then [.notPassworded] else []) ++
  (if f.hideFull then [.notFull] else []) ++
  (if f.hideEmpty then [.notEmpty] else [])

/-- `Filter.Match(&info)` for these six: string fields compare with `==`, the `bool` field
`Password` is compared as `0`/`1` (`compareToInt`), the field value `maxplayers` evaluates to an `int` -/
def RFilter.matches (i : Info) : RFilter → Bool
  | .gameVariantEq v => i.gameVariant = v
  | .gameVerEq v => i.gameVersion = v
  | .gameTypeEq v => i.gameType = v
  | .notPassworded => (if i.password then (1 : Int) else 0) ≠ 1
  | .notFull => i.numPlayers ≠ i.maxPlayers
  | .notEmpty => i.numPlayers > 0

/-- `query.Match`: every filter matches (`query.Blank`, no filters, matches everything) -/
def queryMatch (fs : List RFilter) (i : Info) : Bool := fs.all (RFilter.matches i)

/-- a record the registry holds, with what the listing's selection reads -/
structure Listed where
  status : Nat
  /-- `RefreshedAt` in Unix nanoseconds; `none` = the zero time (the record is in no refresh index) -/
  refreshedAt : Option Int
  server : Stored
  deriving Repr

/-- `serverRepo.Filter(ActiveAfter(now - recentness).WithStatus(ds.Info))`: refreshed at or after
`now - liveness` (the range start is inclusive) and the status word has the `info` bit -/
def Listed.selected (now liveness : Int) (l : Listed) : Bool :=
  hasBit l.status dsInfo && (match l.refreshedAt with | some t => now - liveness ≤ t | none => false)

/-- `listservers.Execute` + the loop of `api.ListServers`: the selected records that match the
query, each through `NewServerFromDomain`.  The order is the registry's (`recs`); the Go code's is
the iteration order of a Go map (`slice.Intersection`), i.e. unspecified — the answer is this list
up to a permutation -/
def listExecute (now liveness : Int) (f : ListForm) (recs : List Listed) : Resp :=
  ⟨200, some (.list (((recs.filter (Listed.selected now liveness)).filter
      (fun l => queryMatch (prepareQuery f) l.server.info)).map (fun l => serverJsonOf l.server))), .none⟩

/-- `api.ListServers`: a binding error is `c.Status(http.StatusBadRequest)` (no body) -/
def listServers (now liveness : Int) (q : ListQuery) (recs : List Listed) : Resp :=
  match bindListQuery q with
  | some f => listExecute now liveness f recs
  | none => ⟨400, none, .none⟩

/-! ## what the `discover` effect queues, and the body of a response without server data

(Formerly built by the C17 driver, `Drv/C17.lean: renderEffect` / `errorBody`; the driver now renders these.) -/

/-- `probe.GoalPort` (`probe.go`: `GoalDetails` = 0, `GoalPort` = 1) -/
def goalPort : Nat := 1

/-- the fields of a queued `probe.Probe` -/
structure ProbeFields where
  addr : Addr
  port : Int
  goal : Nat
  retries : Int
  maxRetries : Int
  deriving DecidableEq, Repr

/-- the probe `addserver.discoverServer` queues for the address `a`:
`probe.New(svr.Addr, svr.Addr.Port, probe.GoalPort, maxRetries)` — the game port, goal `port`, no retries yet,
`maxRetries` = the configured `DiscoveryRevivalRetries` -/
def discoveryProbe (a : Addr) (maxRetries : Int) : ProbeFields := ⟨a, a.port, goalPort, 0, maxRetries⟩

/-- the probe an effect queues: none, or the discovery probe for the effect's address
(`RestBridge.addExecute_probe`: it is the probe `UC.addServer` appends to the queue) -/
def Effect.probe (maxRetries : Int) : Effect → Option ProbeFields
  | .none => Option.none
  | .discover _ a _ _ => some (discoveryProbe a maxRetries)

/-- the message of `gin.H{"error": …}` (`servers_add.go:27,35`, `servers_view.go:24,40`), read from the source on every run
(`Facts.restInvalidAddressMessage`): the property does not fix this text -/
def invalidAddressMessage : String := Facts.restInvalidAddressMessage

/-- the `error` member of a response that carries no server data: the 400 of `api.AddServer` / `api.ViewServer` is
`c.JSON(400, gin.H{"error": "Invalid server address"})`; the 400 of `api.ListServers` (`listing`) is `c.Status(400)` —
no body — and so is every other status without server data (202, 404, 410).  `none` = the body is empty -/
def Resp.errorMessage (r : Resp) (listing : Bool := false) : Option String :=
  match r.body with
  | some _ => Option.none
  | Option.none => if r.status = 400 ∧ !listing then some invalidAddressMessage else Option.none


end Swat4.Rest
