import Swat4.Base.Bytes
import Swat4.Gen.Facts
/-!
# Browser request parser, outcome class only (C06's TCP half)

Minimal model of `browsing.NewRequest` (`pkg/gamespy/browsing/browsing.go`) and of what
`browser.Handler.Handle` does with its result: every slice / index expression of the Go code is an
explicit partial operation (`slice?`, `be16?`, `be32?`, `b[0]?`) whose failure is the outcome `panic`;
the length checks of the code are what keeps them from failing (`C06.tcp_total`).

Only the outcome class is modelled: `err` (connection closed without a reply) or `ok fields`
(a reply is sent; `fields` = the whitelisted requested fields, which determine the reply length on an
empty registry).  Filters, challenge and the listing itself belong to C01/C03.
-/
namespace Swat4.BrowserReq06
open Swat4

inductive ReqOutcome where
  | ok (fields : List Bytes)
  | err
  | panic
  deriving DecidableEq, Repr, Inhabited

/-- Go `b[lo:hi]` on a slice whose capacity is its length: panics unless `lo ≤ hi ≤ len` -/
def slice? (b : Bytes) (lo hi : Nat) : Option Bytes :=
  if lo ≤ hi ∧ hi ≤ b.length then some ((b.take hi).drop lo) else none

/-- `binary.BigEndian.Uint16(b)`: panics unless `len(b) ≥ 2` -/
def be16? (b : Bytes) : Option Nat :=
  match b with
  | x :: y :: _ => some (x.toNat * 256 + y.toNat)
  | _ => none

/-- `binary.BigEndian.Uint32(b)`: panics unless `len(b) ≥ 4` -/
def be32? (b : Bytes) : Option Nat :=
  match b with
  | x :: y :: z :: w :: _ => some (((x.toNat * 256 + y.toNat) * 256 + z.toNat) * 256 + w.toNat)
  | _ => none

/-- `binutils.ConsumeString(data, delim)`: `(head, some rest)` if the delimiter occurs, `(data, none)`
(Go: `nil` remainder) otherwise -/
def consume (delim : UInt8) : Bytes → Bytes × Option Bytes
  | [] => ([], none)
  | c :: rest =>
    if c = delim then ([], some rest)
    else let (h, r) := consume delim rest; (c :: h, r)

/-- `filter.IsQueryField` -/
def isQueryField (name : Bytes) : Bool := Facts.reporterQueryFields.contains name

/-- the loop of `parseFields`: split at backslashes, keep whitelisted names, stop with an error as soon
as more than `max` are kept.  `none` = `ErrTooManyFieldsRequested`. Fuel: each round consumes ≥ 1 byte. -/
def fieldLoop (max : Nat) : Nat → Bytes → List Bytes → Option (List Bytes)
  | 0, _, acc => some acc
  | fuel + 1, unparsed, acc =>
    if unparsed.isEmpty then some acc
    else
      let (name, rem) := consume 0x5C unparsed
      let rest := rem.getD []          -- `len(nil) = 0` ends the loop
      if !isQueryField name then fieldLoop max fuel rest acc
      else if (acc ++ [name]).length > max then none
      else fieldLoop max fuel rest (acc ++ [name])

/-- `validateOptionsMask`: exactly four bytes, value 0 or 1 -/
def validateOptions (fields : List Bytes) (u : Bytes) : ReqOutcome :=
  if u.length ≠ 4 then .err
  else
    match be32? u with
    | none => .panic
    | some opts => if opts ≠ 0 ∧ opts ≠ 1 then .err else .ok fields

/-- `parseFields`: `rem == nil || len(f) < 1 || f[0] != '\\'` (short-circuit: `f[0]` only when `len ≥ 1`),
then `f[1:]` and the loop -/
def parseFields (u : Bytes) : ReqOutcome :=
  let (fbin, rem) := consume 0 u
  match rem with
  | none => .err
  | some u' =>
    if fbin.length < 1 then .err
    else
      match fbin[0]? with
      | none => .panic
      | some c0 =>
        if c0 ≠ 0x5C then .err
        else
          match slice? fbin 1 fbin.length with
          | none => .panic
          | some fu =>
            match fieldLoop Facts.reporterTcpMaxFields fu.length fu [] with
            | none => .err
            | some fields => if fields.isEmpty then .err else validateOptions fields u'

/-- `parseFilters`: a C string (may be empty), NUL-terminated -/
def parseFilters (u : Bytes) : ReqOutcome :=
  match (consume 0 u).2 with
  | none => .err
  | some u' => parseFields u'

/-- `parseChallenge`: `len < 8` is an error, then `unparsed[:8]` and `unparsed[8:]` -/
def parseChallenge (u : Bytes) : ReqOutcome :=
  if u.length < 8 then .err
  else
    match slice? u 0 8, slice? u 8 u.length with
    | some _, some u' => parseFilters u'
    | _, _ => .panic

/-- `Request.parse` after the slice `data[9:dataLen]`: two game-name C strings, then the rest -/
def parse (unparsed : Bytes) : ReqOutcome :=
  match (consume 0 unparsed).2 with
  | none => .err
  | some u1 =>
    match (consume 0 u1).2 with
    | none => .err
    | some u2 => parseChallenge u2

/-- `browsing.NewRequest` -/
def newRequest (data : Bytes) : ReqOutcome :=
  if data.length < 2 then .err
  else
    match slice? data 0 2 with
    | none => .panic
    | some hdr =>
      match be16? hdr with
      | none => .panic
      | some dataLen =>
        if dataLen < Facts.reporterTcpMinRequestLen ∨ dataLen > data.length then .err
        else
          match slice? data 9 dataLen with
          | none => .panic
          | some unparsed => parse unparsed

/-- what the TCP client observes -/
inductive TcpOutcome where
  | reply (fields : List Bytes)   -- exactly one write of the encrypted list
  | closed                        -- connection closed without a reply
  | panic
  deriving DecidableEq, Repr, Inhabited

/-- `browser.Handler.Handle` as far as the request bytes decide (healthy storage): a read error or a
request that does not parse closes the connection; otherwise one reply is written.  `payload = none`
stands for `conn.Read` failing (peer closed without sending). -/
def handle (payload : Option Bytes) : TcpOutcome :=
  match payload with
  | none => .closed
  | some b =>
    match newRequest b with
    | .ok fields => .reply fields
    | .err => .closed
    | .panic => .panic

/-- reply length on an empty registry: 23 cipher header bytes + 6 (client ip, port) + 2 (field count, 0) +
Σ (name + 2) + 5 (terminator) -/
def emptyReplyLen (fields : List Bytes) : Nat :=
  23 + 6 + 2 + (fields.map fun f => f.length + 2).sum + 5

end Swat4.BrowserReq06
