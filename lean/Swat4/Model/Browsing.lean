import Swat4.Base.Bytes
import Swat4.Model.Crypt
import Swat4.Gen.Facts
/-!
# Model of the server browser

* `pkg/binutils/binutils.go`            `ConsumeString`, `ConsumeCString`
* `pkg/gamespy/browsing/browsing.go`    `NewRequest`, `parse`, `parseChallenge`, `parseFilters`, `parseFields`,
                                        `validateOptionsMask`
* `pkg/gamespy/serverquery/params/encode.go`  `Marshal` (over the generated `Info` schema)
* `internal/browser/browser.go`         `packServers`, `process`

Every Go index / slice expression is a guarded step (`goIndex`, `goSlice`): out of range is the
outcome `panic`.  Loops whose termination is not structural carry fuel; running out of fuel is
the outcome `hang`.  `Properties/C01.lean: parse_total` shows that neither is reachable.

The whitelist (`filter.IsQueryField`), the field cap, the minimum payload length and the
`Info` schema are parameters here; the instances used by the driver and the property
theorems come from the generated `Swat4.Facts.browsing…` definitions.
-/
namespace Swat4.Browsing
open Swat4

/-! ## outcomes and guarded slice operations -/

/-- the three errors of `browsing.go` -/
inductive ReqErr where
  | invalidFormat   -- ErrInvalidRequestFormat
  | noFields        -- ErrNoFieldsRequested
  | tooManyFields   -- ErrTooManyFieldsRequested
  deriving DecidableEq, Repr

/-- result of a Go function returning `(T, error)`: a value, an error, a run-time panic
(index / slice out of range), or fuel exhaustion of a fuelled loop -/
inductive Outcome (α : Type) where
  | ok (a : α)
  | error (e : ReqErr)
  | panic
  | hang
  deriving DecidableEq, Repr

def Outcome.bind {α β : Type} : Outcome α → (α → Outcome β) → Outcome β
  | .ok a, f => f a
  | .error e, _ => .error e
  | .panic, _ => .panic
  | .hang, _ => .hang

instance : Monad Outcome where
  pure := .ok
  bind := Outcome.bind

/-- a guarded step: `none` (index / slice out of range) is a run-time panic -/
def orPanic {α : Type} : Option α → Outcome α
  | some a => .ok a
  | none => .panic

/-- Go `b[i]` -/
def goIndex (b : Bytes) (i : Nat) : Option UInt8 := b[i]?

/-- Go `b[lo:hi]`, checked against `len(b)` (`cap ≥ len`, so the real expression succeeds at least as often) -/
def goSlice (b : Bytes) (lo hi : Nat) : Option Bytes :=
  if lo ≤ hi ∧ hi ≤ b.length then some ((b.take hi).drop lo) else none

/-- `binary.BigEndian.Uint16(b)`: reads `b[1]` then `b[0]` -/
def be16? (b : Bytes) : Option Nat :=
  match goIndex b 1, goIndex b 0 with
  | some lo, some hi => some (hi.toNat * 256 + lo.toNat)
  | _, _ => none

/-- `binary.BigEndian.Uint32(b)`: reads `b[3]` first -/
def be32? (b : Bytes) : Option Nat :=
  match goIndex b 3, goIndex b 0, goIndex b 1, goIndex b 2 with
  | some b3, some b0, some b1, some b2 =>
    some (b0.toNat * 16777216 + b1.toNat * 65536 + b2.toNat * 256 + b3.toNat)
  | _, _, _, _ => none

/-! ## binutils -/

/-- the loop of `binutils.ConsumeString`:
`for i := range data { if data[i] == delim { return data[:i], data[i+1:] } }; return data, nil`.
`fuel` = iterations left (`len(data) - i`).  The second component is `none` for Go's `nil`. -/
def consumeStringAt (data : Bytes) (delim : UInt8) : Nat → Nat → Outcome (Bytes × Option Bytes)
  | 0, _ => .ok (data, none)
  | fuel + 1, i => do
    let b ← orPanic (goIndex data i)
    if b = delim then
      let s ← orPanic (goSlice data 0 i)
      let rem ← orPanic (goSlice data (i + 1) data.length)
      pure (s, some rem)
    else consumeStringAt data delim fuel (i + 1)

/-- `binutils.ConsumeString` -/
def consumeString (data : Bytes) (delim : UInt8) : Outcome (Bytes × Option Bytes) :=
  consumeStringAt data delim data.length 0

/-- `binutils.ConsumeCString` -/
def consumeCString (data : Bytes) : Outcome (Bytes × Option Bytes) := consumeString data 0x00

/-! ## browsing.NewRequest -/

structure Request where
  filters : Bytes
  fields : List Bytes
  challenge : Crypt.Challenge
  deriving DecidableEq

/-- static parameters of the parser, read from the source (see `Cfg.facts`) -/
structure Cfg where
  /-- `MinRequestPayloadLength` -/
  minLen : Nat
  /-- `MaxAllowedNumberOfFields` -/
  maxFields : Nat
  /-- `filter.IsQueryField` -/
  isQueryField : Bytes → Bool

/-- the configuration in the source tree (regenerated `Gen/Facts.lean`) -/
def Cfg.facts : Cfg :=
  { minLen := Facts.browsingMinRequestPayloadLength, maxFields := Facts.browsingMaxAllowedNumberOfFields, isQueryField := fun f => Facts.browsingQueryFields.contains f }

/-- one `_, rem := ConsumeCString(req.unparsed); if rem == nil { return Err… }; req.unparsed = rem` -/
def skipCString (unparsed : Bytes) : Outcome Bytes := do
  let (_, rem) ← consumeCString unparsed
  match rem with
  | none => .error .invalidFormat
  | some rem => pure rem

/-- the 8 bytes copied into `req.Challenge` -/
def toChallenge (c : Bytes) : Option Crypt.Challenge :=
  if h : c.toArray.size = 8 then some ⟨c.toArray, h⟩ else none

/-- `parseChallenge`: `len < 8 → Err`, `copy(req.Challenge[:], req.unparsed[:8])`, `req.unparsed = req.unparsed[8:]` -/
def parseChallenge (unparsed : Bytes) : Outcome (Crypt.Challenge × Bytes) :=
  if unparsed.length < 8 then .error .invalidFormat else do
  let c ← orPanic (goSlice unparsed 0 8)
  let rest ← orPanic (goSlice unparsed 8 unparsed.length)
  let ch ← orPanic (toChallenge c)
  pure (ch, rest)

/-- `parseFilters` -/
def parseFilters (unparsed : Bytes) : Outcome (Bytes × Bytes) := do
  let (filters, rem) ← consumeCString unparsed
  match rem with
  | none => .error .invalidFormat
  | some rem => pure (filters, rem)

/-- the `for len(fieldsUnparsed) > 0 { … }` loop of `parseFields`.  Each pass shortens
`fieldsUnparsed` (a found delimiter is dropped; without one the remainder is `nil`), so
`len + 1` passes of fuel always suffice. -/
def fieldsLoop (cfg : Cfg) : Nat → Bytes → List Bytes → Outcome (List Bytes)
  | 0, _, _ => .hang
  | fuel + 1, fieldsUnparsed, fields =>
    if fieldsUnparsed.length > 0 then do
      let (fieldNameBin, rem) ← consumeString fieldsUnparsed 0x5c
      let rest : Bytes := match rem with
        | some r => r
        | none => []   -- a nil slice: len 0
      if !cfg.isQueryField fieldNameBin then fieldsLoop cfg fuel rest fields
      else
        let fields := fields ++ [fieldNameBin]
        if fields.length > cfg.maxFields then .error .tooManyFields
        else fieldsLoop cfg fuel rest fields
    else .ok fields

/-- `parseFields` -/
def parseFields (cfg : Cfg) (unparsed : Bytes) : Outcome (List Bytes × Bytes) := do
  let (fieldsBinString, rem) ← consumeCString unparsed
  match rem with
  | none => .error .invalidFormat
  | some rem =>
    if fieldsBinString.length < 1 then .error .invalidFormat else do
    let b0 ← orPanic (goIndex fieldsBinString 0)
    if b0 ≠ 0x5c then .error .invalidFormat else do
    let fieldsUnparsed ← orPanic (goSlice fieldsBinString 1 fieldsBinString.length)
    let fields ← fieldsLoop cfg (fieldsUnparsed.length + 1) fieldsUnparsed []
    if fields.length = 0 then .error .noFields else pure (fields, rem)

/-- `validateOptionsMask` -/
def validateOptionsMask (unparsed : Bytes) : Outcome Unit :=
  if unparsed.length ≠ 4 then .error .invalidFormat else do
  let options ← orPanic (be32? unparsed)
  if options ≠ 0 ∧ options ≠ 1 then .error .invalidFormat else pure ()

/-- `(*Request).parse` -/
def parseBody (cfg : Cfg) (unparsed : Bytes) : Outcome Request := do
  let unparsed ← skipCString unparsed
  let unparsed ← skipCString unparsed
  let (challenge, unparsed) ← parseChallenge unparsed
  let (filters, unparsed) ← parseFilters unparsed
  let (fields, unparsed) ← parseFields cfg unparsed
  validateOptionsMask unparsed
  pure { filters, fields, challenge }

/-- `browsing.NewRequest` -/
def parseRequest (cfg : Cfg) (data : Bytes) : Outcome Request :=
  if data.length < 2 then .error .invalidFormat else do
  let prefix2 ← orPanic (goSlice data 0 2)
  let dataLen ← orPanic (be16? prefix2)
  if dataLen < cfg.minLen ∨ dataLen > data.length then .error .invalidFormat else do
  let unparsed ← orPanic (goSlice data 9 dataLen)
  parseBody cfg unparsed

/-! ## params.Marshal over the `Info` schema -/

/-- a field value of `details.Info` -/
inductive Val where
  | int (i : Int)
  | bool (b : Bool)
  | str (s : Bytes)
  deriving DecidableEq, Repr

/-- `details.Info` as the values of the fields `params.Marshal` iterates over, in schema order -/
abbrev Info := List Val

/-- ordered `(param name, kind)`; kind 0 = int, 1 = bool, 2 = string, anything else is rejected by `getParamValue` -/
abbrev Schema := List (Bytes × Nat)

def Schema.facts : Schema := Facts.browsingInfoSchema

def natDigits (n : Nat) : Bytes := (Nat.toDigits 10 n).map fun c => UInt8.ofNat c.toNat

/-- `strconv.FormatInt(v, 10)` -/
def decimal : Int → Bytes
  | .ofNat n => natDigits n
  | .negSucc n => 0x2d :: natDigits (n + 1)

/-- `getParamValue`: `none` = "unknown field type" (or a value of another type, which Go's typing excludes) -/
def marshalField : Nat → Val → Option Bytes
  | 0, .int i => some (decimal i)
  | 1, .bool b => some (if b then [0x31] else [0x30])
  | 2, .str s => some s
  | _, _ => none

/-- `params.Marshal(&info)`: the map as an association list in insertion order (`none` = error) -/
def marshalInfo : Schema → Info → Option (List (Bytes × Bytes))
  | [], [] => some []
  | (name, kind) :: sch, v :: vs =>
    match marshalField kind v, marshalInfo sch vs with
    | some x, some rest => some ((name, x) :: rest)
    | _, _ => none
  | _, _ => none

/-- `svrParams[field]` on that map: a later assignment to the same key wins -/
def paramsLookup (ps : List (Bytes × Bytes)) (field : Bytes) : Option Bytes :=
  ps.foldl (fun acc kv => if kv.1 = field then some kv.2 else acc) none

/-! ## browser.packServers / process -/

structure IPv4 where
  a : UInt8
  b : UInt8
  c : UInt8
  d : UInt8
  deriving DecidableEq, Repr

def IPv4.toBytes (ip : IPv4) : Bytes := [ip.a, ip.b, ip.c, ip.d]

/-- the requester as the handler sees it (`*net.TCPAddr`, IPv4) -/
structure Client where
  ip : IPv4
  port : Nat

/-- the part of `server.Server` that `packServers` reads -/
structure Server where
  ip : IPv4
  port : Nat
  queryPort : Int
  info : Info
  deriving DecidableEq

/-- Go `uint16(x)` of an `int` -/
def toU16 (x : Int) : Nat := (x % 65536).toNat

/-- `binary.BigEndian.PutUint16` of a value already reduced to 16 bits -/
def u16be (v : Nat) : Bytes := [UInt8.ofNat (v / 256), UInt8.ofNat (v % 256)]

/-- `bytes.ReplaceAll(val, []byte{0x00}, nil)` -/
def stripNul (v : Bytes) : Bytes := v.filter (· ≠ 0)

/-- the bytes appended for one field of one server: `0xff`, the value without NULs if the map has the field, `0x00` -/
def packValue (ps : List (Bytes × Bytes)) (field : Bytes) : Bytes :=
  0xff :: ((match paramsLookup ps field with
    | some val => stripNul val
    | none => []) ++ [0x00])

/-- the body of `for _, svr := range servers`; a `Marshal` error skips the server (`continue`) -/
def packServer (schema : Schema) (fields : List Bytes) (svr : Server) : Bytes :=
  match marshalInfo schema svr.info with
  | none => []
  | some ps => 0x51 :: (svr.ip.toBytes ++ u16be (toU16 svr.queryPort) ++ fields.flatMap (packValue ps))

/-- `Handler.packServers` -/
def packServers (schema : Schema) (client : Client) (fields : List Bytes) (servers : List Server) : Bytes :=
  let fields := if fields.length > 255 then fields.take 255 else fields
  client.ip.toBytes ++ u16be (client.port % 65536) ++ [UInt8.ofNat fields.length, 0x00]
    ++ fields.flatMap (fun f => f ++ [0x00, 0x00])
    ++ servers.flatMap (packServer schema fields)
    ++ [0x00, 0xff, 0xff, 0xff, 0xff]

/-- `Handler.process` for a given selection (the listing `h.uc.Execute` returns — property C03)
and the 23 random header draws of `crypt.Encrypt`.  An `error` means no reply is written. -/
def process (cfg : Cfg) (schema : Schema) (secret : Crypt.Secret) (client : Client) (payload : Bytes)
    (selected : List Server) (rnd : Crypt.Rnd) : Outcome Bytes := do
  let req ← parseRequest cfg payload
  match Crypt.encrypt? secret req.challenge rnd (packServers schema client req.fields selected) with
  | some out => pure out
  | none => .hang

/-- the key of `browser.GameEncKey` -/
def gameKey : Crypt.Secret := ⟨Facts.gameEncKey.toArray, by decide⟩

end Swat4.Browsing
