import Swat4.Model.Styles
/-!
# Model of `slug.Make` (github.com/gosimple/slug v1.15.0, as `internal/rest/model/server.go` calls it)

`slug.Make(s)` = `MakeLang(s, "en")` with the package's default settings (`MaxLength = 0`,
`Lowercase`, no custom substitutions, dashes collapsed, ends trimmed, no timestamp), step by step
(`slug.go:67-150`):

1. `strings.TrimSpace`;
2. `SubstituteRune(slug, enSub)` — one pass, rune by rune; `enSub` is `{& ↦ and, @ ↦ at}` merged
   with `defaultSub` (`" ' ’ ↦ ""`, the four dashes U+2012..U+2015 `↦ -`; `languages_substitution.go`);
3. `unidecode.Unidecode` — rune by rune: ASCII unchanged, a code point ≥ U+10000 dropped, the rest by
   the library's table.  **Modelled subset:** the table is reproduced for Latin-1 (U+0080..U+00FF,
   the range the probe decoder produces) only; a string with a code point in U+0100..U+FFFF that step 2
   does not replace is outside the model (`make s = none`);
4. `strings.ToLower` (the text is ASCII by now);
5. every character outside `[a-zA-Z0-9-_]` becomes `-`; 6. runs of `-` collapse to one;
7. `strings.Trim(slug, "-_")`.

Steps 2–5 act on each character by itself; `rune` is their composition.
-/
namespace Swat4.Slug
open Swat4

/-- `enSub` after `init()` merged `defaultSub` into it: the replacement of one rune, if any -/
def subEn (c : Char) : Option (List Char) :=
  if c = '"' ∨ c = '\'' ∨ c.toNat = 0x2019 then some []
  else if c.toNat = 0x2012 ∨ c.toNat = 0x2013 ∨ c.toNat = 0x2014 ∨ c.toNat = 0x2015 then some ['-']
  else if c = '&' then some ['a', 'n', 'd']
  else if c = '@' then some ['a', 't']
  else none

/-- `unidecode`'s table (v1.0.1) for U+0080..U+00FF, in code point order -/
def unidecodeLatin1 : List String :=
  ["", "", "", "", "", "", "", "", "", "", "", "", "", "", "", "",
   "", "", "", "", "", "", "", "", "", "", "", "", "", "", "", "",
   " ", "!", "C/", "PS", "$?", "Y=", "|", "SS", "\"", "(c)", "a", "<<", "!", "", "(r)", "-",
   "deg", "+-", "2", "3", "'", "u", "P", "*", ",", "1", "o", ">>", "1/4", "1/2", "3/4", "?",
   "A", "A", "A", "A", "A", "A", "AE", "C", "E", "E", "E", "E", "I", "I", "I", "I",
   "D", "N", "O", "O", "O", "O", "O", "x", "O", "U", "U", "U", "U", "Y", "Th", "ss",
   "a", "a", "a", "a", "a", "a", "ae", "c", "e", "e", "e", "e", "i", "i", "i", "i",
   "d", "n", "o", "o", "o", "o", "o", "/", "o", "u", "u", "u", "u", "y", "th", "y"]

/-- the code points whose transliteration the model knows: everything but U+0100..U+FFFF -/
def unidecodeKnown (c : Char) : Bool := c.toNat < 0x100 || 0x10000 ≤ c.toNat

/-- `unidecode.Unidecode` on one rune (`unidecode.go:40-52`): ASCII as is; `c >= transCount`
(65536) skipped; else the table entry (`[]` stands for an entry outside the modelled range) -/
def unidecode (c : Char) : List Char :=
  if c.toNat < 0x80 then [c]
  else if c.toNat < 0x100 then
    match unidecodeLatin1[c.toNat - 0x80]? with
    | some s => s.toList
    | none => []
  else []

/-- is the rune inside the modelled subset: replaced by step 2, or known to step 3 -/
def known (c : Char) : Bool := (subEn c).isSome || unidecodeKnown c

/-- ASCII `unicode.ToLower` -/
def lower (c : Char) : Char := if 65 ≤ c.toNat ∧ c.toNat ≤ 90 then Char.ofNat (c.toNat + 32) else c

/-- `[a-zA-Z0-9-_]` -/
def authorized (c : Char) : Bool :=
  (97 ≤ c.toNat && c.toNat ≤ 122) || (65 ≤ c.toNat && c.toNat ≤ 90) || (48 ≤ c.toNat && c.toNat ≤ 57) || c = '-' || c = '_'

/-- steps 2–5 on one rune of the trimmed input -/
def rune (c : Char) : List Char :=
  let t := match subEn c with
    | some r => r          -- the replacements are ASCII: step 3 leaves them alone
    | none => unidecode c
  (t.map lower).map fun x => if authorized x then x else '-'

/-- `regexpMultipleDashes.ReplaceAllString(slug, "-")` -/
def collapse : List Char → List Char
  | [] => []
  | c :: t => if c = '-' ∧ t.head? = some '-' then collapse t else c :: collapse t

def isEnd (c : Char) : Bool := c = '-' || c = '_'

/-- `strings.Trim(slug, "-_")` -/
def trimEnds (xs : List Char) : List Char :=
  (((xs.dropWhile isEnd).reverse).dropWhile isEnd).reverse

/-- `slug.Make` where every rune is in the modelled subset (the result is then exact), and a
best-effort value otherwise -/
def makeRaw (s : List Char) : List Char :=
  trimEnds (collapse ((Styles.trimSpace s).flatMap rune))

/-- `slug.Make`; `none` = the input has a rune outside the modelled subset of `unidecode` -/
def make (s : List Char) : Option (List Char) :=
  if (Styles.trimSpace s).all known then some (makeRaw s) else none

end Swat4.Slug
