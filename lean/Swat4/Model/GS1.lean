import Swat4.Base.Bytes
/-!
# GS1 — model of `pkg/gamespy/serverquery/gs1/gs1.go` and of the port prober's response choice

Function by function, quirks included (DESIGN.md Appendix C "GS1").  Core Lean only.

* Go `[]byte`/`string` = `Bytes`.  A *nil* slice matters to the code only in the tests
  `rest == nil` / `unparsed != nil`; those results are `Option Bytes` (`none` = nil).  Everywhere
  else a nil slice behaves as the empty one (`len`, `append`, `HasSuffix`): `nilEmpty`.
* Every Go index/slice expression of the file is an explicit checked operation (`sliceFrom`,
  `sliceTo`, `index`) whose failure is the outcome `panic`.  The bound used is `len`, which is
  at most Go's bound `cap` for `s[:hi]`: the model panics whenever Go would (and possibly more
  often), so `≠ panic` for the model implies it for the code.  After `/repo` commit 55f36fe
  (`bytes.HasPrefix` instead of `Name[:4]`) no expression of the file reslices beyond `len`.
* The one unbounded loop (`parseParams`' `for unparsed != nil`) runs on fuel; running out of
  fuel is the outcome `hang`.
* Error values are mapped to their class: `incomplete` (`ErrResponseIncomplete`) or `malformed`
  (everything wrapping `ErrResponseMalformed`).
-/
namespace Swat4.GS1
open Swat4

/-! ## outcomes -/

inductive Err where
  | incomplete
  | malformed
  deriving DecidableEq, Repr, Inhabited

/-- result of a modelled Go function: value, error class, run-time panic, or non-termination -/
inductive Res (α : Type) where
  | ok (a : α)
  | err (e : Err)
  | panic
  | hang
  deriving Repr

namespace Res
@[inline] def bind {α β : Type} : Res α → (α → Res β) → Res β
  | .ok a, f => f a
  | .err e, _ => .err e
  | .panic, _ => .panic
  | .hang, _ => .hang

instance : Monad Res where
  pure := .ok
  bind := Res.bind

def isOk {α : Type} : Res α → Bool
  | .ok _ => true
  | _ => false
end Res

/-! ## byte-level helpers (`bytes` package) -/

/-- `'\\'` -/
abbrev bsl : UInt8 := 0x5c
/-- `'_'` -/
abbrev usc : UInt8 := 0x5f

/-- `"\\queryid\\1.1"` -/
def sfxVanilla : Bytes := [0x5c, 0x71, 0x75, 0x65, 0x72, 0x79, 0x69, 0x64, 0x5c, 0x31, 0x2e, 0x31]
/-- `"\\statusresponse\\"` -/
def pfxAM : Bytes := [0x5c, 0x73, 0x74, 0x61, 0x74, 0x75, 0x73, 0x72, 0x65, 0x73, 0x70, 0x6f, 0x6e, 0x73, 0x65, 0x5c]
/-- `FINAL = "\\final\\"` -/
def FINAL : Bytes := [0x5c, 0x66, 0x69, 0x6e, 0x61, 0x6c, 0x5c]
/-- `EOF = "\\eof\\"` -/
def EOF : Bytes := [0x5c, 0x65, 0x6f, 0x66, 0x5c]
/-- `"statusresponse"` -/
def kStatusresponse : Bytes := [0x73, 0x74, 0x61, 0x74, 0x75, 0x73, 0x72, 0x65, 0x73, 0x70, 0x6f, 0x6e, 0x73, 0x65]
/-- `"queryid"` -/
def kQueryid : Bytes := [0x71, 0x75, 0x65, 0x72, 0x79, 0x69, 0x64]
/-- `"obj_"` -/
def kObj : Bytes := [0x6f, 0x62, 0x6a, 0x5f]
/-- `"hostport"` -/
def kHostport : Bytes := [0x68, 0x6f, 0x73, 0x74, 0x70, 0x6f, 0x72, 0x74]

/-- `bytes.HasPrefix` -/
def hasPrefix (b p : Bytes) : Bool := p.isPrefixOf b
/-- `bytes.HasSuffix` -/
def hasSuffix (b s : Bytes) : Bool := s.isSuffixOf b
/-- `bytes.TrimSuffix` -/
def trimSuffix (b s : Bytes) : Bytes := if hasSuffix b s then b.take (b.length - s.length) else b

/-- `bytes.IndexByte` (`none` = -1) -/
def indexByte : Bytes → UInt8 → Option Nat
  | [], _ => none
  | x :: xs, c => if x = c then some 0 else (indexByte xs c).map (· + 1)

/-- `bytes.LastIndexByte` (`none` = -1) -/
def lastIndexByte : Bytes → UInt8 → Option Nat
  | [], _ => none
  | x :: xs, c =>
    match lastIndexByte xs c with
    | some i => some (i + 1)
    | none => if x = c then some 0 else none

/-- Go `s[lo:]`: panics when `lo > len(s)` -/
def sliceFrom (b : Bytes) (lo : Nat) : Res Bytes := if lo ≤ b.length then .ok (b.drop lo) else .panic
/-- Go `s[:hi]`: panics when `hi > cap(s)`; the model uses the stronger bound `len(s)` -/
def sliceTo (b : Bytes) (hi : Nat) : Res Bytes := if hi ≤ b.length then .ok (b.take hi) else .panic
/-- Go `xs[i]` -/
def index {α : Type} (xs : List α) (i : Nat) : Res α :=
  match xs[i]? with
  | some x => .ok x
  | none => .panic

/-- a nil slice used where only `len`/`append`/`HasSuffix` look at it -/
def nilEmpty : Option Bytes → Bytes
  | some b => b
  | none => []

/-! ## `strconv.Atoi` (64-bit `int`) -/

def isDigit (c : UInt8) : Bool := 0x30 ≤ c && c ≤ 0x39

def digitsVal (ds : Bytes) : Nat := ds.foldl (fun a c => a * 10 + (c.toNat - 48)) 0

/-- `[+-]?[0-9]+` within the int64 range; anything else is an error (`none`) -/
def atoi (s : Bytes) : Option Int :=
  let neg := s.head? == some 0x2d
  let ds := if s.head? == some 0x2d || s.head? == some 0x2b then s.drop 1 else s
  if ds.isEmpty || !ds.all isDigit then none
  else
    let n := digitsVal ds
    if neg then (if n ≤ 9223372036854775808 then some (-(n : Int)) else none)
    else (if n < 9223372036854775808 then some (n : Int) else none)

/-- `x + 1` on a 64-bit `int` (wraps at `math.MaxInt64`) -/
def addOne (x : Int) : Int := if x = 9223372036854775807 then -9223372036854775808 else x + 1

/-! ## types -/

/-- `QueryVersion` -/
inductive Ver where
  | unknown
  | vanilla
  | am
  | gs1
  deriving DecidableEq, Repr, Inhabited

def Ver.toNat : Ver → Nat
  | .unknown => 0
  | .vanilla => 1
  | .am => 2
  | .gs1 => 3

/-- `QueryVersion.String()` -/
def Ver.tag : Ver → String
  | .unknown => "unknown"
  | .vanilla => "vanilla"
  | .am => "am"
  | .gs1 => "gs1"

/-- `fragment` -/
structure Fragment where
  isFinal : Bool
  order : Int
  version : Ver
  data : Bytes
  deriving DecidableEq, Repr

/-- `Param` -/
structure Param where
  name : Bytes
  value : Bytes
  deriving DecidableEq, Repr

/-! ## field scanners -/

/-- `consumeField`: drops the first byte whatever it is, then reads up to the next backslash.
Second component `none` = nil rest. -/
def consumeField (payload : Bytes) : Res (Bytes × Option Bytes) :=
  if payload.length = 0 then .ok ([], none)
  else do
    let consumed ← sliceFrom payload 1
    match indexByte consumed bsl with
    | some i => do
      let a ← sliceTo consumed i
      let b ← sliceFrom consumed i
      pure (a, some b)
    | none => pure (consumed, none)

/-- `consumeFieldFromRight`; note `consumed[:0]` is an empty *non-nil* rest -/
def consumeFieldFromRight (payload : Bytes) : Res (Bytes × Option Bytes) :=
  if payload.length = 0 then .ok ([], none)
  else
    match lastIndexByte payload bsl with
    | some i => do
      let a ← sliceFrom payload (i + 1)
      let b ← sliceTo payload i
      pure (a, some b)
    | none => pure (payload, none)

/-- `consumeParam`; the Go error is only ever tested for `!= nil`: `none` -/
def consumeParam (payload : Bytes) : Res (Option (Param × Option Bytes)) := do
  let (name, rest) ← consumeField payload
  match rest with
  | none => pure none
  | some rest =>
    if name.length = 0 then pure none
    else do
      let (value, rest') ← consumeField rest
      pure (some (⟨name, value⟩, rest'))

/-- `consumeParamFromRight` -/
def consumeParamFromRight (payload : Bytes) : Res (Option (Param × Option Bytes)) := do
  let (value, rest) ← consumeFieldFromRight payload
  match rest with
  | none => pure none
  | some rest => do
    let (name, rest') ← consumeFieldFromRight rest
    if name.length = 0 then pure none
    else pure (some (⟨name, value⟩, rest'))

/-! ## fragment inspection -/

/-- `inspectStatusResponse` -/
def inspectStatusResponse (v : Bytes) : Res (Int × Ver) :=
  match atoi v with
  | none => .err .malformed
  | some n => if n < 0 then .err .malformed else .ok (addOne n, .am)

/-- `inspectQueryID` -/
def inspectQueryID (v : Bytes) : Res (Int × Ver) :=
  match atoi v with
  | none => .ok (1, .vanilla)
  | some n => if n ≤ 0 then .err .malformed else .ok (n, .gs1)

/-- `inspectAmModFragment` -/
def inspectAmModFragment (payload0 : Bytes) : Res Fragment := do
  let payload := trimSuffix payload0 EOF
  match ← consumeParam payload with
  | none => .err .malformed
  | some (param, rest) =>
    if param.name ≠ kStatusresponse then .err .malformed
    else do
      let (order, version) ← inspectStatusResponse param.value
      let payload := nilEmpty rest
      let payload ←
        match ← consumeParamFromRight payload with
        | some (last, rest') => pure (if last.name = kQueryid then nilEmpty rest' else payload)
        | none => pure payload
      if hasSuffix payload FINAL then
        pure ⟨true, order, version, trimSuffix payload FINAL⟩
      else
        pure ⟨false, order, version, payload⟩

/-- `inspectGS1Fragment` -/
def inspectGS1Fragment (payload0 : Bytes) : Res Fragment := do
  let isFinal := hasSuffix payload0 FINAL
  let payload := if isFinal then trimSuffix payload0 FINAL else payload0
  match ← consumeParamFromRight payload with
  | none => .err .malformed
  | some (param, rest) =>
    if param.name ≠ kQueryid then .err .malformed
    else do
      let (order, version) ← inspectQueryID param.value
      pure ⟨isFinal, order, version, nilEmpty rest⟩

/-- `inspectFragment`: three dialects -/
def inspectFragment (payload : Bytes) : Res Fragment :=
  if hasSuffix payload sfxVanilla then .ok ⟨true, 1, .vanilla, payload⟩
  else if hasPrefix payload pfxAM then inspectAmModFragment payload
  else inspectGS1Fragment payload

/-! ## reassembly -/

/-- a Go map as a key-sorted association list; insertion replaces an equal key -/
def insertKV {κ α : Type} [LT κ] [DecidableLT κ] [DecidableEq κ] (k : κ) (v : α) : List (κ × α) → List (κ × α)
  | [] => [(k, v)]
  | (k', v') :: t =>
    if k < k' then (k, v) :: (k', v') :: t
    else if k = k' then (k, v) :: t
    else (k', v') :: insertKV k v t

def lookupKV {κ α : Type} [DecidableEq κ] (k : κ) : List (κ × α) → Option α
  | [] => none
  | (k', v') :: t => if k = k' then some v' else lookupKV k t

/-- the locals of `collectPayload`'s first loop -/
structure CState where
  count : Int
  version : Ver
  ordered : List (Int × Bytes)
  size : Nat
  deriving DecidableEq, Repr

def CState.init : CState := ⟨-1, .unknown, [], 0⟩

/-- body of the loop for one successfully inspected fragment -/
def CState.step (st : CState) (fr : Fragment) : CState :=
  { count := if fr.isFinal then fr.order else st.count, version := fr.version, ordered := insertKV fr.order fr.data st.ordered, size := st.size + fr.data.length }

/-- first loop of `collectPayload`: every fragment received so far is inspected again -/
def collectLoop : List Bytes → CState → Res CState
  | [], st => .ok st
  | raw :: rest, st => do
    let fr ← inspectFragment raw
    if fr.order = -1 then .err .malformed
    else collectLoop rest (st.step fr)

/-- the reassembled payload: a slice of length `payload.length` and capacity `cap` -/
structure Collected where
  payload : Bytes
  cap : Nat
  version : Ver
  deriving DecidableEq, Repr

/-- `ordered[i]` for a missing key is nil -/
def orderedAt (m : List (Int × Bytes)) (i : Int) : Bytes := nilEmpty (lookupKV i m)

/-- second half of `collectPayload` -/
def CState.finish (st : CState) : Res Collected :=
  if st.count = -1 ∨ st.count ≠ (st.ordered.length : Int) then .err .incomplete
  else
    .ok ⟨((List.range st.count.toNat).map fun (i : Nat) => orderedAt st.ordered ((i : Int) + 1)).flatten, st.size, st.version⟩

/-- `collectPayload` -/
def collectPayload (fragments : List Bytes) : Res Collected := do
  let st ← collectLoop fragments CState.init
  st.finish

/-! ## payload expansion -/

/-- `latin1`: ISO 8859-1 → UTF-8 -/
def latin1 (b : Bytes) : Bytes :=
  b.flatMap fun (c : UInt8) => if c < 0x80 then [c] else [(0xC0 : UInt8) ||| (c >>> 6), (0x80 : UInt8) ||| (c &&& 0x3F)]

/-- loop of `parseParams` over `unparsed != nil`, on fuel -/
def parseFieldsLoop : Nat → Option Bytes → Res (List Bytes)
  | _, none => .ok []
  | 0, some _ => .hang
  | fuel + 1, some u => do
    let (f, rest) ← consumeField u
    let fs ← parseFieldsLoop fuel rest
    pure (f :: fs)

/-- second loop of `parseParams`: `for i := 1; i < len(fields); i += 2 { Param{fields[i-1], fields[i]} }` -/
def pairFieldsLoop (fields : List Bytes) : Nat → Nat → Res (List Param)
  | 0, _ => .ok []
  | fuel + 1, i =>
    if i < fields.length then do
      let n ← index fields (i - 1)
      let v ← index fields i
      let ps ← pairFieldsLoop fields fuel (i + 2)
      pure (⟨n, v⟩ :: ps)
    else .ok []

/-- `parseParams` (the payload handed over by `collectPayload` is never nil) -/
def parseParams (data : Bytes) : Res (List Param) := do
  let fields ← parseFieldsLoop (data.length + 1) (some data)
  pairFieldsLoop fields fields.length 1

/-- `Response`; maps are key-sorted association lists, an objective is its (`name`, `status`) pair -/
structure Response where
  fields : List (Bytes × Bytes)
  players : List (List (Bytes × Bytes))
  objectives : List (Bytes × Bytes)
  version : Ver
  deriving DecidableEq, Repr

/-- the locals of `expandPayload` -/
structure EState where
  objectives : List (Bytes × Bytes)
  playersByID : List (Int × List (Bytes × Bytes))
  fields : List (Bytes × Bytes)
  deriving DecidableEq, Repr

def EState.init : EState := ⟨[], [], []⟩

/-- body of `expandPayload`'s loop for one parameter -/
def expandStep (st : EState) (p : Param) : Res EState :=
  if hasPrefix p.name kObj then
    if p.name.length > 4 then do
      let nm ← sliceFrom p.name 4
      pure { st with objectives := st.objectives ++ [(nm, p.value)] }
    else pure st
  else
    match indexByte p.name usc with
    | some i =>
      if p.name.length ≤ i + 1 then pure st
      else do
        let sfx ← sliceFrom p.name (i + 1)
        match atoi sfx with
        | none => .err .malformed
        | some id => do
          let key ← sliceTo p.name i
          let cur := (lookupKV id st.playersByID).getD []
          pure { st with playersByID := insertKV id (insertKV key (latin1 p.value) cur) st.playersByID }
    | none => pure { st with fields := insertKV p.name (latin1 p.value) st.fields }

def expandLoop : List Param → EState → Res EState
  | [], st => .ok st
  | p :: ps, st => do
    let st' ← expandStep st p
    expandLoop ps st'

/-- `expandPayload` (+ `collectPlayers`: players in ascending id order) -/
def expandPayload (payload : Bytes) (version : Ver) : Res Response := do
  let params ← parseParams payload
  let st ← expandLoop params EState.init
  pure ⟨st.fields, st.playersByID.map (·.2), st.objectives, version⟩

/-! ## `getResponse` -/

/-- `bufferSize`: longer datagrams are cut by the read -/
def bufferSize : Nat := 2048

/-- result of one iteration of `getResponse`'s loop -/
inductive Step where
  | incomplete
  | response (r : Response)
  | error (e : Err)
  | panic
  | hang
  deriving DecidableEq, Repr

/-- one iteration of `getResponse`: `frs` are the (already cut) datagrams received before, `d` the new one -/
def feed (frs : List Bytes) (d : Bytes) : Step :=
  let raw := d.take bufferSize
  if raw.length = 0 then .error .incomplete
  else
    match collectPayload (frs ++ [raw]) with
    | .err .incomplete => .incomplete
    | .err e => .error e
    | .panic => .panic
    | .hang => .hang
    | .ok c =>
      match expandPayload c.payload c.version with
      | .ok r => .response r
      | .err e => .error e
      | .panic => .panic
      | .hang => .hang

/-- result of `Query` against a responder that sends `ds` and then stays silent -/
inductive QResult where
  | response (r : Response)
  | error (e : Err)
  | timeout
  | panic
  | hang
  deriving DecidableEq, Repr

def runQueryFrom : List Bytes → List Bytes → QResult
  | _, [] => .timeout
  | frs, d :: ds =>
    match feed frs d with
    | .incomplete => runQueryFrom (frs ++ [d.take bufferSize]) ds
    | .response r => .response r
    | .error e => .error e
    | .panic => .panic
    | .hang => .hang

def runQuery (ds : List Bytes) : QResult := runQueryFrom [] ds

/-! ## port prober: which answer is kept (`probePort` gate + `collectResponses`/`compareResponses`) -/

/-- one answering candidate port, in arrival order -/
structure PortAnswer where
  port : Int
  resp : Response
  deriving Repr

/-- `strconv.Atoi(resp.Fields["hostport"])`: a missing key reads as `""` -/
def hostportOf (r : Response) : Option Int := atoi ((lookupKV kHostport r.fields).getD [])

/-- `probePort`'s gate: the answer is forwarded only when its hostport is the game port -/
def accepted (gamePort : Int) (a : PortAnswer) : Bool := hostportOf a.resp == some gamePort

/-- `compareResponses`: the earlier one survives only when strictly more capable -/
def compareResponses (this that : Ver × Int) : Ver × Int :=
  if this.1.toNat > that.1.toNat then this else that

/-- `collectResponses` over the accepted answers in arrival order: `none` = "port discovery failed" -/
def chooseAccepted (as : List (Ver × Int)) : Option (Ver × Int) :=
  match as with
  | [] => none
  | _ => some (as.foldl compareResponses (.unknown, 0))

def choose (gamePort : Int) (arrivals : List PortAnswer) : Option (Ver × Int) :=
  chooseAccepted ((arrivals.filter (accepted gamePort)).map fun a => (a.resp.version, a.port))

end Swat4.GS1
