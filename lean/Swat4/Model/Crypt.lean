import Swat4.Base.Bytes
/-!
# Model of `pkg/gamespy/crypt` (crypt.go, state.go)

`cipherState`, `newCipherState`, `shuffle`, `encryptByte`, `decryptByte`, `Encrypt`.
Go `uint8` arithmetic is `UInt8` (wrap-around is the algorithm).  The 23 `RandInt(1,255)`
draws of the header are the parameter `rnd`.
-/
namespace Swat4.Crypt

abbrev Cards := Vector UInt8 256

@[inline] def cget (v : Cards) (i : UInt8) : UInt8 := v[i.toNat]'(UInt8.toNat_lt i)
@[inline] def cset (v : Cards) (i x : UInt8) : Cards := v.set i.toNat x (UInt8.toNat_lt i)

structure CipherState where
  cards : Cards
  rotor : UInt8
  ratchet : UInt8
  avalanche : UInt8
  lastPlain : UInt8
  lastCipher : UInt8

abbrev Key := Vector UInt8 8

@[inline] def kget (k : Key) (i : UInt8) : UInt8 := k[i.toNat % 8]'(Nat.mod_lt _ (by decide))

/-- `mask = 1; for mask < limit { mask = (mask << 1) + 1 }` — at most 7 doublings reach 255 ≥ any limit -/
def goMaskLoop : Nat → UInt8 → UInt8 → UInt8
  | 0, _, mask => mask
  | fuel + 1, limit, mask => if mask < limit then goMaskLoop fuel limit ((mask <<< 1) + 1) else mask

def goMask (limit : UInt8) : UInt8 := goMaskLoop 8 limit 1

/-- one pass through the body of `shuffle`'s `for { … }` loop, before the exit test:
returns `(u, rsum, keypos)`.  `retries` is the value after `retries++`. -/
def shuffleIter (cards : Cards) (key : Key) (limit mask : UInt8) (retries : Nat) (rsum keypos : UInt8) :
    UInt8 × UInt8 × UInt8 :=
  let rsum1 := cget cards rsum + kget key keypos
  let wrap : Bool := keypos + 1 ≥ 8
  let keypos' := if wrap then 0 else keypos + 1
  let rsum' := if wrap then rsum1 + 8 else rsum1
  let u := mask &&& rsum'
  (if retries > 11 then u % limit else u, rsum', keypos')

/-- `shuffle`'s `for { … }` loop.  `retries` counts completed iterations.  The Go loop always
leaves by iteration 12 (`u %= limit` gives `u < limit`); the model carries a fuel of 12 and
returns `none` if it were ever exhausted — `shuffleLoop_isSome` (Lemmas/Crypt) shows it never is. -/
def shuffleLoop (cards : Cards) (key : Key) (limit mask : UInt8) :
    Nat → Nat → UInt8 → UInt8 → Option (UInt8 × UInt8 × UInt8)
  | 0, _, _, _ => none
  | fuel + 1, retries, rsum, keypos =>
    let r := shuffleIter cards key limit mask (retries + 1) rsum keypos
    if r.1 ≤ limit then some r else shuffleLoop cards key limit mask fuel (retries + 1) r.2.1 r.2.2

/-- `(*cipherState).shuffle` -/
def shuffle (cards : Cards) (key : Key) (limit rsum keypos : UInt8) : Option (UInt8 × UInt8 × UInt8) :=
  if limit = 0 then some (0, rsum, keypos)
  else shuffleLoop cards key limit (goMask limit) 12 0 rsum keypos

def identityCards : Cards := Vector.ofFn fun (i : Fin 256) => UInt8.ofNat i.val

/-- the `for i := 255; i >= 0; i--` loop of `newCipherState`; `n` = i + 1 -/
def initLoop (key : Key) : Nat → Cards → UInt8 → UInt8 → Option (Cards × UInt8)
  | 0, cards, rsum, _ => some (cards, rsum)
  | n + 1, cards, rsum, keypos =>
    match shuffle cards key (UInt8.ofNat n) rsum keypos with
    | none => none
    | some (toswap, rsum, keypos) =>
      let i := UInt8.ofNat n
      let ci := cget cards i
      let ct := cget cards toswap
      -- cs.cards[i], cs.cards[toswap] = cs.cards[toswap], cs.cards[i]
      let cards := cset (cset cards i ct) toswap ci
      initLoop key n cards rsum keypos

def newCipherState? (key : Key) : Option CipherState :=
  match initLoop key 256 identityCards 0 0 with
  | none => none
  | some (cards, rsum) =>
    some { cards, rotor := cget cards 1, ratchet := cget cards 3, avalanche := cget cards 5,
           lastPlain := cget cards 7, lastCipher := cget cards rsum }

/-- the part of `encryptByte`/`decryptByte` both share: shuffle the deck, produce `c ^ d` -/
def CipherState.advance (s : CipherState) : CipherState × UInt8 :=
  let ratchet := s.ratchet + cget s.cards s.rotor
  let rotor := s.rotor + 1
  let swaptemp := cget s.cards s.lastCipher
  let c1 := cset s.cards s.lastCipher (cget s.cards ratchet)
  let c2 := cset c1 ratchet (cget c1 s.lastPlain)
  let c3 := cset c2 s.lastPlain (cget c2 rotor)
  let c4 := cset c3 rotor swaptemp
  let avalanche := s.avalanche + cget c4 swaptemp
  let c := cget c4 (cget c4 avalanche + cget c4 rotor)
  let d := cget c4 (cget c4 (cget c4 s.lastPlain + cget c4 s.lastCipher + cget c4 ratchet))
  ({ s with cards := c4, rotor, ratchet, avalanche }, c ^^^ d)

def CipherState.encryptByte (s : CipherState) (b : UInt8) : CipherState × UInt8 :=
  let (s', k) := s.advance
  let o := b ^^^ k
  ({ s' with lastCipher := o, lastPlain := b }, o)

def CipherState.decryptByte (s : CipherState) (b : UInt8) : CipherState × UInt8 :=
  let (s', k) := s.advance
  let o := b ^^^ k
  ({ s' with lastPlain := o, lastCipher := b }, o)

def CipherState.encrypt (s : CipherState) : Bytes → Bytes
  | [] => []
  | b :: bs => let (s', o) := s.encryptByte b; o :: s'.encrypt bs

def CipherState.decrypt (s : CipherState) : Bytes → Bytes
  | [] => []
  | b :: bs => let (s', o) := s.decryptByte b; o :: s'.decrypt bs

abbrev Secret := Vector UInt8 6
abbrev Challenge := Vector UInt8 8
abbrev Rnd := Vector UInt8 23

/-- `payload[i] = rnd ^ gameSecret[i%GMSL] ^ challenge[i%CCHL]` -/
@[inline] def hdrByte (secret : Secret) (chal : Challenge) (rnd : Rnd) (i : Fin 23) : UInt8 :=
  rnd[i] ^^^ secret[i.val % 6]'(Nat.mod_lt _ (by decide)) ^^^ chal[i.val % 8]'(Nat.mod_lt _ (by decide))

/-- the 23-byte header after bytes 0, 1, 2, 8 are overwritten -/
def header (secret : Secret) (chal : Challenge) (rnd : Rnd) : Bytes :=
  let x := hdrByte secret chal rnd
  [0xeb, 0x00, 0x00, x 3, x 4, x 5, x 6, x 7, 14 ^^^ 0xea,
   x 9, x 10, x 11, x 12, x 13, x 14, x 15, x 16, x 17, x 18, x 19, x 20, x 21, x 22]

/-- one iteration of `for i, b := range svrChallenge { cryptKey[(uint8(i)*gameSecret[i%GMSL])%CCHL] ^= (cryptKey[i%CCHL] ^ b) & 0xFF }` -/
def mixStep (secret : Secret) (key : Key) (i : Nat) (b : UInt8) : Key :=
  let k := (UInt8.ofNat i * secret[i % 6]'(Nat.mod_lt _ (by decide))) % 8
  let idx := k.toNat % 8
  have h : idx < 8 := Nat.mod_lt _ (by decide)
  key.set idx (key[idx] ^^^ ((key[i % 8]'(Nat.mod_lt _ (by decide)) ^^^ b) &&& 0xFF)) h

def mixLoop (secret : Secret) : Nat → Bytes → Key → Key
  | _, [], key => key
  | i, b :: bs, key => mixLoop secret (i + 1) bs (mixStep secret key i b)

def cryptKey (secret : Secret) (chal : Challenge) (rnd : Rnd) : Key :=
  mixLoop secret 0 ((header secret chal rnd).drop 9) chal

/-- `crypt.Encrypt` -/
def encrypt? (secret : Secret) (chal : Challenge) (rnd : Rnd) (data : Bytes) : Option Bytes :=
  match newCipherState? (cryptKey secret chal rnd) with
  | none => none
  | some st => some (header secret chal rnd ++ st.encrypt data)

end Swat4.Crypt
