import Swat4.Base.Bytes
import Std.Data.ExtTreeMap
/-!
# Domain entities (internal/core/entities/…)

`addr.Addr`, `discovery/status`, `details.Info`/`Details` (as ordered value lists over the
struct's fields), `server.Server`, `instance.Instance`, `probe.Probe`.

Times are `GoTime = Option Int`: `none` is Go's zero `time.Time`, `some ns` is `UnixNano`.
-/
namespace Swat4
open Std

abbrev GoTime := Option Int

/-- `addr.Addr`: four IP bytes packed big-endian into `ip` (< 2^32), `port` as stored (`int`) -/
structure Addr where
  ip : Nat
  port : Int
  deriving DecidableEq, Repr, Inhabited

/-- map key of an address (stands for `Addr.String()`, which is injective on valid addresses) -/
def Addr.key (a : Addr) : Nat := a.ip * 65536 + a.port.toNat

def Addr.ipBytes (a : Addr) : Bytes :=
  [UInt8.ofNat (a.ip / 16777216), UInt8.ofNat (a.ip / 65536 % 256), UInt8.ofNat (a.ip / 256 % 256), UInt8.ofNat (a.ip % 256)]

def Addr.render (a : Addr) : String :=
  s!"{a.ip / 16777216}.{a.ip / 65536 % 256}.{a.ip / 256 % 256}.{a.ip % 256}:{a.port}"

/-! ## discovery status (`ds.DiscoveryStatus`): nine bits -/

abbrev Status := BitVec 9

namespace Status
def new : Status := 1#9
def master : Status := 2#9
def info : Status := 4#9
def details : Status := 8#9
def detailsRetry : Status := 16#9
def noDetails : Status := 32#9
def port : Status := 64#9
def portRetry : Status := 128#9
def noPort : Status := 256#9
/-- `ds.Members()` in order -/
def members : List Status := [new, master, info, details, detailsRetry, noDetails, port, portRetry, noPort]
/-- `BitString()` names in the same order -/
def names : List String := ["new", "master", "info", "details", "details_retry", "no_details", "port", "port_retry", "no_port"]
/-- `HasDiscoveryStatus`: all bits of `m` set -/
@[inline] def has (s m : Status) : Bool := s &&& m == m
/-- `HasAnyDiscoveryStatus` -/
@[inline] def hasAny (s m : Status) : Bool := s &&& m != 0#9
/-- `HasNoDiscoveryStatus`: `(s &^ m) == s` -/
@[inline] def hasNone (s m : Status) : Bool := s &&& ~~~m == s
/-- `UpdateDiscoveryStatus`: clears `new`, sets `m` -/
@[inline] def update (s m : Status) : Status := (s &&& ~~~new) ||| m
/-- `ClearDiscoveryStatus` -/
@[inline] def clear (s m : Status) : Status := s &&& ~~~m
end Status

/-! ## details -/

/-- one struct field value of `details.Info` / `Player` / `Objective` -/
inductive Val where
  | int (n : Int)
  | bool (b : Bool)
  | str (s : Bytes)
  deriving DecidableEq, Repr, Inhabited

/-- a struct as the ordered list of its field values (declaration order) -/
abbrev Fields := List Val

structure Details where
  info : Fields
  players : List Fields
  objectives : List Fields
  deriving DecidableEq, Repr, Inhabited

/-! ## server, instance, probe -/

structure Server where
  addr : Addr
  queryPort : Int
  status : Status
  info : Fields
  details : Details
  refreshedAt : GoTime
  version : Int
  deriving DecidableEq, Repr, Inhabited

structure Instance where
  id : Nat            -- the 4 id bytes, big-endian
  addr : Addr
  deriving DecidableEq, Repr, Inhabited

inductive Goal where
  | details | port
  deriving DecidableEq, Repr, Inhabited

def Goal.toNat : Goal → Nat
  | .details => 0
  | .port => 1

structure Probe where
  addr : Addr
  port : Int
  goal : Goal
  retries : Int
  maxRetries : Int
  deriving DecidableEq, Repr, Inhabited

/-- `Probe.IncRetries` -/
def Probe.incRetries (p : Probe) : Probe × Int × Bool :=
  if p.retries ≥ p.maxRetries then (p, p.retries, false)
  else ({ p with retries := p.retries + 1 }, p.retries + 1, true)

end Swat4
