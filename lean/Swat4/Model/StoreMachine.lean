import Swat4.Model.Store
/-!
# Repositories as small-step machines over the Redis-level store (L3) and their interleaving (L5a)

A *client* is one repository call in flight in one logical process.  Each `cstep` is one
storage command as the go-redis hook sees it (`SET NX EX`, `WATCH`, `GET`, `HGET`,
`MULTI…EXEC`, `UNWATCH`, `DEL`, index pipeline, `HMGET`, …), executed atomically.

Server writes follow `updateExclusive` → `redislock.Guard` exactly:

    for attempt in 1..MaxAttempts:
      SET lock token NX EX            not acquired ⇒ next attempt
      WATCH lock
      GET lock                        nil ⇒ hard error (no retry) · foreign token ⇒ ErrNotAcquired
      HGET servers:items addr         (clock read for the batch happens right after)
      decide add/update/remove        may finish without a batch (not found / exists / refused)
      MULTI … EXEC                    aborted iff the lock key changed since WATCH ⇒ ErrNotAcquired
      UNWATCH
      release: WATCH lock · GET lock · DEL lock (only if own) · UNWATCH
-/
namespace Swat4
open Std

inductive WKind where
  | add | update | remove
  deriving DecidableEq, Repr, Inhabited

/-- a registry write call -/
structure WOp where
  kind : WKind
  svr : Server
  res : Resolver

inductive WErr where
  | notFound | exists
  | lockLost          -- `guard: check lock ownership: redis: nil` — lease expired before the ownership check
  | lockExhausted     -- `lock not acquired after N attempts`
  deriving DecidableEq, Repr, Inhabited

/-- result of a registry write: `ok none` for remove / `ok (some s)` for add, update -/
abbrev WResult := Except WErr (Option Server)

/-- what the fenced transaction will do -/
inductive Batch where
  | save (svr : Server) (now : Int)     -- record already carries version + 1
  | remove (k : Nat)
  deriving DecidableEq, Repr, Inhabited

/-- outcome of one `Guard` attempt, decided before the release sequence runs -/
inductive Attempt where
  | finished (r : WResult)      -- the call returns `r` (no retry)
  | retry                       -- ErrNotAcquired ⇒ next attempt
  deriving Repr, Inhabited

inductive WPC where
  | setnx
  | watch
  | ownGet (v : Nat)
  | hget (v : Nat)
  | exec (v : Nat) (ex : Option Server) (now : Int) (b : Batch) (r : WResult)   -- `ex`, `now`: what was read (ghost)
  | unwatch (a : Attempt)
  | relWatch (a : Attempt)
  | relGet (a : Attempt)
  | relDel (a : Attempt)
  | relUnwatch (a : Attempt)
  | done (r : WResult)
  deriving Repr, Inhabited

structure Writer where
  op : WOp
  pc : WPC
  tok : Nat
  attemptsLeft : Nat          -- attempts not yet started, after the current one
  committed : Bool := false   -- ghost: did an EXEC of this call succeed

/-- `add` / `update` / `remove` after the `HGET`: either finish without writing, or a batch with the result it will return -/
def decideOp (op : WOp) (existing : Option Server) (now : Int) : WResult ⊕ (Batch × WResult) :=
  let saveOf (s : Server) : WResult ⊕ (Batch × WResult) :=
    let s' := { s with version := s.version + 1 }
    .inr (.save s' now, .ok (some s'))
  match op.kind, existing with
  | .add, none => saveOf op.svr
  | .add, some ex =>
    match op.res ex with
    | none => .inl (.error .exists)
    | some r => saveOf r
  | .update, none => .inl (.error .notFound)
  | .update, some ex =>
    if ex.version > op.svr.version then
      match op.res ex with
      | none => .inl (.ok (some ex))
      | some r => saveOf r
    else saveOf op.svr
  | .remove, none => .inl (.ok none)
  | .remove, some ex =>
    if ex.version > op.svr.version then
      match op.res ex with
      | none => .inl (.ok none)
      | some r => .inr (.remove r.addr.key, .ok none)
    else .inr (.remove op.svr.addr.key, .ok none)

def Batch.apply (st : RStore) : Batch → RStore
  | .save svr now => st.saveBatch svr now
  | .remove k => st.removeBatch k

/-- ghost log entry written at a successful EXEC -/
structure Commit where
  client : Nat
  before : Option Server      -- the row just before the commit
  batch : Batch
  deriving Repr

/-- one storage command of a writer; returns the new store, the new client, whether a fresh token is
needed (a new attempt starts) and a commit record.  `fresh` is the next unused token. -/
def wstep (st : RStore) (clock : Int) (fresh : Nat) (i : Nat) (c : Writer) : RStore × Writer × Bool × Option Commit :=
  let k := c.op.svr.addr.key
  let afterRelease (a : Attempt) : Writer × Bool :=
    match a with
    | .finished r => ({ c with pc := .done r }, false)
    | .retry =>
      if c.attemptsLeft = 0 then ({ c with pc := .done (.error .lockExhausted) }, false)
      else ({ c with pc := .setnx, tok := fresh, attemptsLeft := c.attemptsLeft - 1 }, true)
  match c.pc with
  | .setnx =>
    let (st', ok) := st.lockSetNX k c.tok
    if ok then (st', { c with pc := .watch }, false, none)
    else
      -- not acquired: no release (the deferred release is installed only after acquiring)
      let (c', f) := afterRelease .retry
      (st, c', f, none)
  | .watch => (st, { c with pc := .ownGet (st.verOf k) }, false, none)
  | .ownGet v =>
    match st.locks[k]? with
    | none => (st, { c with pc := .unwatch (.finished (.error .lockLost)) }, false, none)
    | some cell =>
      if cell.token = c.tok then (st, { c with pc := .hget v }, false, none)
      else (st, { c with pc := .unwatch .retry }, false, none)
  | .hget v =>
    match decideOp c.op (st.items[k]?) clock with
    | .inl r => (st, { c with pc := .unwatch (.finished r) }, false, none)
    | .inr (b, r) => (st, { c with pc := .exec v (st.items[k]?) clock b r }, false, none)
  | .exec v _ _ b r =>
    if st.verOf k = v then
      (b.apply st, { c with pc := .unwatch (.finished r), committed := true }, false, some ⟨i, st.items[k]?, b⟩)
    else (st, { c with pc := .unwatch .retry }, false, none)
  | .unwatch a => (st, { c with pc := .relWatch a }, false, none)
  | .relWatch a => (st, { c with pc := .relGet a }, false, none)
  | .relGet a =>
    match st.locks[k]? with
    | none => (st, { c with pc := .relUnwatch a }, false, none)        -- `release: check lock ownership` error: nothing to delete
    | some cell => if cell.token = c.tok then (st, { c with pc := .relDel a }, false, none)
                   else (st, { c with pc := .relUnwatch a }, false, none)
  | .relDel a => (st.lockDel k, { c with pc := .relUnwatch a }, false, none)
  | .relUnwatch a => let (c', f) := afterRelease a; (st, c', f, none)
  | .done _ => (st, c, false, none)

/-! ## readers: `Filter` -/

inductive RPC where
  | index (fs : FilterSet)
  | hmget (keys : List Nat)
  | done (r : List Server)
  deriving Repr, Inhabited

structure Reader where
  pc : RPC

def rstep (st : RStore) (c : Reader) : Reader :=
  match c.pc with
  | .index fs =>
    let keys := st.filterKeys fs
    if keys.isEmpty then { pc := .done [] } else { pc := .hmget keys }
  | .hmget keys => { pc := .done (st.hmgetItems keys) }
  | .done _ => c

/-! ## the interleaved system -/

inductive Client where
  | writer (w : Writer)
  | reader (r : Reader)

structure Sys where
  store : RStore
  clock : Int
  clients : List Client
  nextTok : Nat
  log : List Commit := []
  dirties : Bool := true      -- does lease expiry invalidate watchers

inductive Ev where
  | step (i : Nat)
  | expire (k : Nat)
  | tick (d : Nat)
  deriving Repr, Inhabited

def Sys.step (s : Sys) : Ev → Sys
  | .expire k => { s with store := s.store.lockExpire k s.dirties }
  | .tick d => { s with clock := s.clock + d }
  | .step i =>
    match s.clients[i]? with
    | none => s
    | some (.reader r) => { s with clients := s.clients.set i (.reader (rstep s.store r)) }
    | some (.writer w) =>
      let (st', w', usedFresh, commit) := wstep s.store s.clock s.nextTok i w
      { s with store := st', clients := s.clients.set i (.writer w'),
               nextTok := if usedFresh then s.nextTok + 1 else s.nextTok,
               log := match commit with | some c => s.log ++ [c] | none => s.log }

def Sys.run (s : Sys) (es : List Ev) : Sys := es.foldl Sys.step s

/-- run one writer alone to completion (sequential semantics): at most `fuel` commands -/
def runWriter (st : RStore) (clock : Int) (w : Writer) (fresh : Nat) : Nat → RStore × Writer
  | 0 => (st, w)
  | fuel + 1 =>
    match w.pc with
    | .done _ => (st, w)
    | _ =>
      let (st', w', f, _) := wstep st clock fresh 0 w
      runWriter st' clock w' (if f then fresh + 1 else fresh) fuel

/-- a fresh writer for a call, as `updateExclusive` starts it: MaxAttempts = 5 -/
def Writer.start (op : WOp) (tok : Nat) : Writer := { op, pc := .setnx, tok, attemptsLeft := 4 }

end Swat4

namespace Swat4
open Std

/-- label of the next storage command of a writer, as the harness' hook records it: `<kind>:<reply class>` -/
def wlabel (st : RStore) (c : Writer) : Option String :=
  let k := c.op.svr.addr.key
  match c.pc with
  | .setnx => some (if st.locks.contains k then "setnx:0" else "setnx:1")
  | .watch => some "watch:ok"
  | .ownGet _ => some (if st.locks.contains k then "get:ok" else "get:nil")
  | .hget _ => some (if st.items.contains k then "hget:ok" else "hget:nil")
  | .exec v _ _ _ _ => some (if st.verOf k = v then "exec:ok" else "exec:abort")
  | .unwatch _ => some "unwatch:ok"
  | .relWatch _ => some "watch:ok"
  | .relGet _ => some (if st.locks.contains k then "get:ok" else "get:nil")
  | .relDel _ => some "del:ok"
  | .relUnwatch _ => some "unwatch:ok"
  | .done _ => none

def rlabel (c : Reader) : Option String :=
  match c.pc with
  | .index _ => some "pipe:ok"
  | .hmget _ => some "hmget:ok"
  | .done _ => none

def Client.label (st : RStore) : Client → Option String
  | .writer w => wlabel st w
  | .reader r => rlabel r

def Client.live (c : Client) : Bool :=
  match c with
  | .writer w => match w.pc with | .done _ => false | _ => true
  | .reader r => match r.pc with | .done _ => false | _ => true

/-- all lock leases expire (`miniredis.FastForward(lease)`) -/
def Sys.expireAll (s : Sys) : Sys :=
  { s with store := (s.store.locks.toList.map (·.1)).foldl (fun st k => st.lockExpire k s.dirties) s.store }

/-- step client `i` if it is live, recording the trace label -/
def Sys.stepT (s : Sys) (i : Nat) (trace : List String) : Sys × List String :=
  match s.clients[i]? with
  | none => (s, trace)
  | some c =>
    match c.label s.store with
    | none => (s, trace)
    | some l => (s.step (.step i), trace ++ [s!"{i}:{l}"])

/-- complete all live clients round-robin, one command each in turn -/
def Sys.roundRobin (s : Sys) (trace : List String) : Nat → Sys × List String
  | 0 => (s, trace)
  | fuel + 1 =>
    if s.clients.any Client.live then
      let (s', t') := (List.range s.clients.length).foldl (fun (acc : Sys × List String) i => acc.1.stepT i acc.2) (s, trace)
      Sys.roundRobin s' t' fuel
    else (s, trace)

end Swat4
