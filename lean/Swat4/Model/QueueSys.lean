import Swat4.Model.QueueMachine
/-!
# Producers and consumers of the probe queue interleaved at storage-command granularity (L5a)

Clients are `QOp` calls in flight.  A client reads the clock when it arrives at a command (right
after its previous command returned, or when it starts): the ready time of an `enqueue` and the
upper bound of a `PopMany` round's `ZRANGEBYSCORE` use that value; the expiry test after a pop batch
uses the clock at the time the batch returned.
-/
namespace Swat4
open Std

structure QClient where
  op : QOp
  pc : QPC
  started : Bool := false
  dead : Bool := false
  arrival : Int := 0
  /-- ghost: probes this client has popped so far (what it holds if it dies) -/
  popped : List (Probe × GoTime) := []

def QClient.live (c : QClient) : Bool := !c.dead && (!c.started || c.pc.live)

structure QSys where
  store : RStore := {}
  clock : Int
  clients : List QClient := []
  fresh : Nat := 0

inductive QSysEv where
  | step (i : Nat)
  | run (i : Nat)            -- start if necessary and run to completion
  | tick (d : Int)
  | crashBefore (i : Nat)
  | crashAfter (i : Nat)
  deriving Repr, Inhabited

def QClient.start (c : QClient) (clock : Int) : QClient :=
  if c.started then c else { c with started := true, pc := c.op.begin, arrival := clock }

/-- one storage command of client `i` (started on demand); returns the trace label -/
def QSys.stepClient (s : QSys) (i : Nat) (crashAfter : Bool) : QSys × Option String :=
  match s.clients[i]? with
  | none => (s, none)
  | some c0 =>
    if c0.dead then (s, none)
    else
      let c := c0.start s.clock
      if !c.pc.live then ({ s with clients := s.clients.set i c }, none)
      else
        -- which clock value does this command work with?
        let t := match c.pc with
          | .popExec .. => s.clock
          | _ => c.arrival
        let before := match c.pc with | .popExec _ _ ids _ => ids | _ => []
        let (st', pc', used, label) := qstep s.store t s.fresh c.op c.pc
        let got := before.filterMap fun id => s.store.pItems[id]?
        let c' : QClient := { c with pc := pc', arrival := s.clock, popped := c.popped ++ got, dead := crashAfter }
        ({ s with store := st', clients := s.clients.set i c', fresh := if used then s.fresh + 1 else s.fresh },
         some (if crashAfter then s!"{i}:{label}!crash" else s!"{i}:{label}"))

def QSys.runClient (s : QSys) (i : Nat) (trace : List String) : Nat → QSys × List String
  | 0 => (s, trace)
  | fuel + 1 =>
    match s.stepClient i false with
    | (s', some l) => QSys.runClient s' i (trace ++ [l]) fuel
    | (s', none) => (s', trace)

def QSys.stepT (s : QSys) (trace : List String) : QSysEv → QSys × List String
  | .tick d => ({ s with clock := s.clock + d }, trace)
  | .step i => match s.stepClient i false with
    | (s', some l) => (s', trace ++ [l])
    | (s', none) => (s', trace)
  | .run i => s.runClient i trace 200
  | .crashBefore i =>
    match s.clients[i]? with
    | some c => if (c.start s.clock).live then ({ s with clients := s.clients.set i { (c.start s.clock) with dead := true } }, trace) else (s, trace)
    | none => (s, trace)
  | .crashAfter i =>
    match s.clients[i]? with
    | some c =>
      if (c.start s.clock).pc.live && !c.dead then
        match s.stepClient i true with
        | (s', some l) => (s', trace ++ [l])
        | (s', none) => (s', trace)
      else (s, trace)
    | none => (s, trace)

/-- start every client that has not started, then complete the live ones round-robin, one command each in turn -/
def QSys.finish (s : QSys) (trace : List String) : Nat → QSys × List String
  | 0 => (s, trace)
  | fuel + 1 =>
    let s : QSys := { s with clients := s.clients.map fun (c : QClient) => if c.dead then c else c.start s.clock }
    if s.clients.any (fun (c : QClient) => !c.dead && c.pc.live) then
      let (s', t') := (List.range s.clients.length).foldl (fun (acc : QSys × List String) i => acc.1.stepT acc.2 (.step i)) (s, trace)
      QSys.finish s' t' fuel
    else (s, trace)

end Swat4
