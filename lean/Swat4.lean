import Swat4.Base.Bytes
import Swat4.Model.Crypt
import Swat4.Spec.GOA
