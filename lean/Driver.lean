import Swat4.Drv.Common
import Swat4.Drv.C02
/-! Line-protocol driver: reads cases on stdin, prints one verdict per line. -/
open Swat4 Swat4.Drv

def dispatch (line : String) : String :=
  let toks := (line.splitOn " ").filter (· ≠ "")
  match toks with
  | [] => "BAD-LINE empty"
  | prop :: rest =>
    let (args, out) := splitArrow rest
    let v : Verdict :=
      match prop with
      | "C02" => C02.handle args out
      | _ => .bad s!"unknown property {prop}"
    v.render

partial def loop (h : IO.FS.Stream) (o : IO.FS.Stream) : IO Unit := do
  let line ← h.getLine
  if line.isEmpty then return ()
  let l := line.trimAscii.toString
  o.putStrLn (dispatch l)
  o.flush
  loop h o

def main : IO Unit := do
  loop (← IO.getStdin) (← IO.getStdout)
